package main

// C06 end to end: error texts of every length class (1 .. 40000 bytes, in
// particular 127/128, 16383/16384) under every header encoder and handler
// shape must reach exactly the failing call verbatim, leave its reply object
// untouched, survive later traffic, and not disturb neighbouring calls.

import (
	"errors"
	"fmt"
	"strings"
	"time"

	"github.com/hslam/rpc"
	"github.com/hslam/socket"
)

type ErrSvc struct{}

// the request is the error text to return ("" = succeed)
func (s *ErrSvc) Plain(req *[]byte, res *[]byte) error {
	if len(*req) > 0 {
		return errors.New(string(*req))
	}
	*res = []byte("fine")
	return nil
}
func (s *ErrSvc) Out(req *[]byte) (*[]byte, error) {
	if len(*req) > 0 {
		return nil, errors.New(string(*req))
	}
	b := []byte("fine")
	return &b, nil
}

func errorTextSweep(e *Env) {
	lens := []int{1, 2, 26, 27, 28, 126, 127, 128, 129, 255, 256, 1000, 16383, 16384, 16385, 40000}
	for _, enc := range []string{"", "pb", "code", "json"} {
		for _, method := range []string{"Err.Plain", "Err.Out"} {
			c2s, s2c := newChunkPipe(func() int { return 1 << 20 }), newChunkPipe(func() int { return 1 << 20 })
			cliRW := &duplex{r: s2c, w: c2s}
			srvRW := &duplex{r: c2s, w: s2c}
			srv := rpc.NewServer()
			srv.SetLogLevel(rpc.OffLogLevel)
			srv.RegisterName("Err", &ErrSvc{})
			go srv.ServeCodec(rpc.NewServerCodec(&rpc.BYTESCodec{}, encoderOf(enc), socket.NewMessages(srvRW, false), false, 0))
			conn := rpc.NewConnWithCodec(rpc.NewClientCodec(&rpc.BYTESCodec{}, encoderOf(enc), socket.NewMessages(cliRW, false), 0))
			type kept struct {
				want string
				err  error
			}
			var keep []kept
			for i, n := range lens {
				text := string(genUTF8(e, n))
				if enc != "json" && i%3 == 0 {
					text = strings.Repeat("\xfe", n) // arbitrary bytes under the binary headers
				}
				for len(text) < n {
					text += "x"
				}
				req, res := []byte(text), []byte("untouched")
				errc := make(chan error, 1)
				go func() { errc <- conn.Call(method, &req, &res) }()
				var err error
				select {
				case err = <-errc:
				case <-time.After(5 * time.Second):
					e.fail("C06-failing-call-hangs", fmt.Sprintf("header %q %s: a call failing with a %d-byte error text never completed", enc, method, n), map[string]interface{}{"encoder": enc, "len": n})
					conn.Close()
					goto next
				}
				if err == nil || err.Error() != text {
					got := "<nil>"
					if err != nil {
						got = short([]byte(err.Error()))
					}
					e.fail("C06-error-text", fmt.Sprintf("header %q %s: a %d-byte server error text arrived as %s", enc, method, n, got), map[string]interface{}{"encoder": enc, "len": n})
				}
				if string(res) != "untouched" {
					e.fail("C06-reply-touched", fmt.Sprintf("header %q: the reply object of a failed call was modified", enc), nil)
				}
				keep = append(keep, kept{text, err})
				// a succeeding neighbour right after
				ok, okr := []byte(nil), []byte(nil)
				if err := conn.Call(method, &ok, &okr); err != nil || string(okr) != "fine" {
					e.fail("C06-neighbour-disturbed", fmt.Sprintf("header %q: a call after a failed call returned err=%v reply=%q", enc, err, okr), nil)
				}
				e.count("error-text", fmt.Sprintf("et-%s-%s-%d", enc, method, n))
			}
			// the texts must still be what they were (no alias into recycled buffers)
			for _, k := range keep {
				if k.err != nil && k.err.Error() != k.want {
					e.fail("C06-error-text-mutated", fmt.Sprintf("header %q: an error text handed to the caller changed after further traffic", enc), map[string]interface{}{"encoder": enc, "len": len(k.want)})
					break
				}
			}
			if conn.NumCalls() != 0 {
				e.fail("C06-residue", fmt.Sprintf("NumCalls() = %d after all calls completed", conn.NumCalls()), nil)
			}
			conn.Close()
		next:
			cliRW.Close()
		}
	}
}
