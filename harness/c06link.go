package main

// C06, "never poison the link", end to end: calls whose ARGUMENTS the server cannot decode (and calls that
// fail in the handler) are mixed into verified traffic on the same connection, under body codecs that encode
// into the buffers they are offered.  Every other call keeps getting its own, intact reply.
// C02: the asynchronous forms always hand back a call with a Done channel that is signalled, also when
// the connection cannot even be dialed and no channel was supplied.

import (
	"bytes"
	"errors"
	"fmt"
	"time"

	"github.com/hslam/rpc"
	"github.com/hslam/socket"
)

// pickyCodec: bytes in, bytes out, written into the offered buffer; bodies starting with 0xBD do not decode.
type pickyCodec struct{}

func (c *pickyCodec) Marshal(buf []byte, v interface{}) ([]byte, error) {
	p, ok := v.(*[]byte)
	if !ok || p == nil {
		return nil, errors.New("picky: not *[]byte")
	}
	if cap(buf) >= len(*p) {
		buf = buf[:len(*p)]
	} else {
		buf = make([]byte, len(*p))
	}
	copy(buf, *p)
	return buf, nil
}

func (c *pickyCodec) Unmarshal(data []byte, v interface{}) error {
	p, ok := v.(*[]byte)
	if !ok || p == nil {
		return errors.New("picky: not *[]byte")
	}
	if len(data) > 0 && data[0] == 0xBD {
		return errors.New("picky: cannot decode these arguments")
	}
	*p = append((*p)[:0], data...)
	return nil
}

type LinkSvc struct{}

func (l *LinkSvc) Rev(req *[]byte, res *[]byte) error {
	if len(*req) > 0 && (*req)[0] == 'F' {
		return errors.New("handler refuses")
	}
	out := make([]byte, len(*req))
	for i, b := range *req {
		out[len(out)-1-i] = b
	}
	*res = out
	return nil
}

func linkNotPoisoned(e *Env) {
	for _, enc := range []string{"", "pb", "code"} {
		for mode := 0; mode < 2; mode++ {
			desc := map[string]interface{}{"scenario": "undecodable arguments and failing handlers mixed into verified traffic", "header_encoder": enc, "server_pipelining": mode == 1, "seed": e.Seed}
			e.inflight(desc)
			c2s, s2c := newChunkPipe(func() int { return 1 << 20 }), newChunkPipe(func() int { return 1 << 20 })
			cliRW := &duplex{r: s2c, w: c2s}
			srvRW := &duplex{r: c2s, w: s2c}
			srv := rpc.NewServer()
			srv.SetLogLevel(rpc.OffLogLevel)
			srv.SetPipelining(mode == 1)
			srv.RegisterName("L", &LinkSvc{})
			go srv.ServeCodec(rpc.NewServerCodec(&pickyCodec{}, encoderOf(enc), socket.NewMessages(srvRW, false), false, 0))
			conn := rpc.NewConnWithCodec(rpc.NewClientCodec(&pickyCodec{}, encoderOf(enc), socket.NewMessages(cliRW, false), 0))
			bad := 0
			for i := 0; i < 240 && bad < 3; i++ {
				n := []int{3, 40, 700, 5000, 66000}[i%5]
				req := genBytes(e, n, i%3)
				req[0] = 'a' + byte(i%20)
				req[n-1] = 'z' // the reply is the reverse: it must not start with the byte the codec refuses
				kind := "ok"
				switch {
				case i%7 == 3:
					req[0], kind = 0xBD, "undecodable"
				case i%11 == 5:
					req[0], kind = 'F', "refused"
				}
				res := []byte("untouched")
				errc := make(chan error, 1)
				go func() { errc <- conn.Call("L.Rev", &req, &res) }()
				var err error
				select {
				case err = <-errc:
				case <-time.After(5 * time.Second):
					e.fail("C06-link-poisoned", fmt.Sprintf("call %d (%s, %d bytes) never completed on a connection on which earlier calls had failed with undecodable arguments", i, kind, n), desc)
					bad = 3
					continue
				}
				switch kind {
				case "ok":
					want := make([]byte, n)
					for j, b := range req {
						want[n-1-j] = b
					}
					if err != nil || !bytes.Equal(res, want) {
						bad++
						e.fail("C06-link-poisoned", fmt.Sprintf("call %d (well-formed, %d bytes) on a connection on which earlier calls had failed ended with err=%v and a reply that is %s", i, n, err, map[bool]string{true: "correct", false: "not its own"}[bytes.Equal(res, want)]), desc)
					}
				case "undecodable":
					if err == nil || err.Error() != "picky: cannot decode these arguments" || string(res) != "untouched" {
						bad++
						e.fail("C06-error-text", fmt.Sprintf("call %d with undecodable arguments ended with err=%v reply=%q", i, err, short(res)), desc)
					}
				case "refused":
					if err == nil || err.Error() != "handler refuses" || string(res) != "untouched" {
						bad++
						e.fail("C06-error-text", fmt.Sprintf("call %d refused by its handler ended with err=%v reply=%q", i, err, short(res)), desc)
					}
				}
				e.count("link", fmt.Sprintf("ln-%s-%d-%s-%d", enc, mode, kind, i%5))
			}
			conn.Close()
			cliRW.Close()
		}
	}
}

func goNilDone(e *Env) {
	t := &rpc.Transport{Network: "fake", Codec: "bytes", Dial: func(network, address, codec string) (*rpc.Conn, error) {
		return nil, errors.New("connection refused")
	}}
	defer t.Close()
	c := rpc.NewClient(nil)
	c.Transport = t
	c.DialTimeout = 300 * time.Millisecond
	c.Update("nowhere")
	defer c.Close()
	check := func(what string, call *rpc.Call) {
		if call == nil || call.Done == nil {
			e.fail("C02-call-without-done-channel", fmt.Sprintf("%s with a nil done channel to an address that cannot be dialed returned a call without a Done channel: it can never be completed", what), map[string]interface{}{"scenario": what})
			return
		}
		select {
		case <-call.Done:
			if call.Error == nil {
				e.fail("C02-success-without-response", what+": completed without error although nothing could be dialed", nil)
			}
		case <-time.After(3 * time.Second):
			e.fail("C02-not-exactly-once", what+" to an address that cannot be dialed was never completed", map[string]interface{}{"scenario": what})
		}
		e.count("go-nil-done", what)
	}
	a, b := []byte("x"), []byte(nil)
	check("Transport.Go", t.Go("nowhere", "S.M", &a, &b, nil))
	check("Transport.Go with a channel", t.Go("nowhere", "S.M", &a, &b, make(chan *rpc.Call, 1)))
	check("Transport.RoundTrip", t.RoundTrip("nowhere", &rpc.Call{ServiceMethod: "S.M", Args: &a, Reply: &b}))
	check("Client.Go", c.Go("S.M", &a, &b, nil))
}
