package main

// Snapshot-step correspondence and oracles for the load-balancing Client
// (C16, C17, C18).  The Client runs over an instrumented RoundTripper whose
// Ping (used by the detector's checks) is gated, so every check completion is
// a harness-chosen step; calls record the address they were routed to.

import (
	"context"
	"fmt"
	"sort"
	"strings"
	"sync"
	"time"

	"github.com/hslam/rpc"
)

func init() {
	commands["lb-c08"] = func(w string) { runLB(w, "C08") }
	commands["lb-c16"] = func(w string) { runLB(w, "C16") }
	commands["lb-c17"] = func(w string) { runLB(w, "C17") }
	commands["lb-c18"] = func(w string) { runLB(w, "C18") }
}

type fakeRT struct {
	mu       sync.Mutex
	health   map[string]bool // true = up
	pingGate gate
	log      []string // addresses calls were sent to
	closed   bool
	delay    map[string]time.Duration // how long a call to the address takes (spun, not slept: the harness's quiescence test treats sleepers as blocked)
	hold     map[string]bool          // calls to the address are held in flight until the harness releases them with their outcome
	callGate gate
}

func (f *fakeRT) up(addr string) bool {
	f.mu.Lock()
	defer f.mu.Unlock()
	return f.health[addr]
}

func (f *fakeRT) record(addr string) error {
	f.mu.Lock()
	f.log = append(f.log, addr)
	up := f.health[addr]
	d := f.delay[addr]
	held := f.hold[addr]
	f.mu.Unlock()
	if held {
		if r := f.callGate.enter(addr, nil); r != nil {
			return r.(error)
		}
		return nil
	}
	for t0 := time.Now(); d > 0 && time.Since(t0) < d; {
	}
	if !up {
		return rpc.ErrDial
	}
	return nil
}

func (f *fakeRT) RoundTrip(addr string, call *rpc.Call) *rpc.Call {
	call.Error = f.record(addr)
	if call.Done == nil {
		call.Done = make(chan *rpc.Call, 10)
	}
	call.Done <- call
	return call
}
func (f *fakeRT) Go(addr, sm string, args, reply interface{}, done chan *rpc.Call) *rpc.Call {
	if done == nil {
		done = make(chan *rpc.Call, 10)
	}
	c := &rpc.Call{ServiceMethod: sm, Args: args, Reply: reply, Done: done}
	c.Error = f.record(addr)
	done <- c
	return c
}
func (f *fakeRT) Call(addr, sm string, args, reply interface{}) error { return f.record(addr) }
func (f *fakeRT) CallWithContext(ctx context.Context, addr, sm string, args, reply interface{}) error {
	return f.record(addr)
}
func (f *fakeRT) NewStream(addr, key string) (rpc.Stream, error) { return nil, f.record(addr) }

// Ping is what the detector's check uses: held until the harness releases it
// with the result it chose.
func (f *fakeRT) Ping(addr string) error {
	r := f.pingGate.enter(addr, nil)
	if r == nil {
		return nil
	}
	return r.(error)
}
func (f *fakeRT) Close() error {
	f.mu.Lock()
	f.closed = true
	f.mu.Unlock()
	return nil
}

type lbRun struct {
	e        *Env
	rt       *fakeRT
	c        *rpc.Client
	sched    rpc.Scheduling
	addrs    []string // universe; index+1 = model address
	cases    []string
	trace    []string
	gen      int
	pingGen  map[*waiter]int
	director string
	dmu      sync.Mutex
	waiting  []*lbWaiter
	closed   bool
	current  map[string]bool // the target list in force
	rrSet    string          // C17 round robin: the live set the window below was collected under
	rrPicks  []string
}

type lbWaiter struct {
	done chan error
}

var schedCoq = map[rpc.Scheduling]string{rpc.RoundRobinScheduling: "RoundRobin", rpc.RandomScheduling: "Random", rpc.LeastTimeScheduling: "LeastTime"}

func newLBRun(e *Env, sched rpc.Scheduling) *lbRun { return newLBRunN(e, sched, 5) }

func newLBRunN(e *Env, sched rpc.Scheduling, naddr int) *lbRun {
	r := &lbRun{e: e, sched: sched, rt: &fakeRT{health: map[string]bool{}, delay: map[string]time.Duration{}, hold: map[string]bool{}}, pingGen: map[*waiter]int{}, current: map[string]bool{}}
	for i := 0; i < naddr; i++ {
		r.addrs = append(r.addrs, fmt.Sprintf("t%d", i+1))
	}
	r.c = rpc.NewClient(nil)
	r.c.Transport = r.rt
	r.c.Scheduling = sched
	r.c.Tick = time.Hour
	r.c.DialTimeout = 30 * time.Second
	r.c.Director = func() string {
		r.dmu.Lock()
		defer r.dmu.Unlock()
		return r.director
	}
	return r
}

func (r *lbRun) idx(a string) int {
	for i, x := range r.addrs {
		if x == a {
			return i + 1
		}
	}
	if a == "" {
		return 0
	}
	return 90 + len(a)
}

func (r *lbRun) nats(as []string) string {
	s := make([]string, len(as))
	for i, a := range as {
		s[i] = fmt.Sprintf("%d", r.idx(a))
	}
	return "[" + strings.Join(s, "; ") + "]%nat"
}

func (r *lbRun) snap() (string, rpc.ClientSnapshot) {
	s := r.c.VerifSnapshot()
	var ts []string
	for _, t := range s.Targets {
		ts = append(ts, fmt.Sprintf("(%d%%nat, (%s, %d))", r.idx(t.Address), coqBool(t.Alive), t.Latency))
	}
	age := int64(s.ProbeAge / time.Second)
	if age > 1000000000 || age < 0 {
		age = 1000000000
	}
	return fmt.Sprintf("{| ls_targets := [%s]; ls_list := %s; ls_heap := %s; ls_last := %s; ls_pos := %d; ls_probe_age := %d; ls_waiters := %d; ls_closed := %s; ls_fallback := %d |}",
		strings.Join(ts, "; "), r.nats(s.List), r.nats(s.MinHeap), r.nats(s.Last), s.Pos, age, s.Waiters, coqBool(s.Closed), s.Fallback), s
}

func (r *lbRun) replay() interface{} {
	return map[string]interface{}{"scheduling": schedCoq[r.sched], "trace": append([]string(nil), r.trace...), "seed": r.e.Seed}
}

func (r *lbRun) emit(before string, ops []string, saw []string, unordered bool, skip []string, human string) {
	r.trace = append(r.trace, human)
	after, _ := r.snap()
	r.cases = append(r.cases, fmt.Sprintf("LStep {| lc_sched := %s; lc_before := %s; lc_ops := [%s]; lc_after := %s; lc_saw := [%s]; lc_saw_unordered := %s; lc_skip_lat := %s |}",
		schedCoq[r.sched], before, strings.Join(ops, "; "), after, strings.Join(saw, "; "), coqBool(unordered), r.nats(skip)))
}

// tag new ping-gate entries with the generation they were spawned in
func (r *lbRun) tagPings() {
	for _, w := range r.rt.pingGate.list() {
		if _, ok := r.pingGen[w]; !ok {
			r.pingGen[w] = r.gen
		}
	}
}

// settle waits until the detector has spawned its checks for the current
// state (at most one clientTick) — an event wait, not a synchronisation sleep
func (r *lbRun) settle() {
	quiesce()
	r.tagPings()
}

func (r *lbRun) update(addrs []string) {
	r.tagPings()
	before, _ := r.snap()
	r.c.Update(addrs...)
	r.gen++
	r.rrSet, r.rrPicks = "", nil
	r.current = map[string]bool{}
	for _, a := range addrs {
		if a != "" {
			r.current[a] = true
		}
	}
	r.emit(before, []string{"LUpdate " + r.nats(addrs)}, nil, false, nil, "Update "+strings.Join(addrs, ","))
}

// release one held check with the health the harness chooses
func (r *lbRun) checkRet(w *waiter) {
	addr := w.tag.(string)
	r.e.inflight(map[string]interface{}{"history_so_far": r.replay(), "next": "a detector check of " + addr + " returns"})
	before, sb0 := r.snap()
	ok := r.rt.up(addr)
	cur := r.pingGen[w] == r.gen
	delete(r.pingGen, w)
	nwait := len(r.waiting)
	nlog := len(r.rt.log)
	if ok {
		r.rt.pingGate.release(w, nil)
	} else {
		r.rt.pingGate.release(w, rpc.ErrDial)
	}
	quiesce()
	_, s := r.snap()
	{
		// a change of the live set starts a new rotation window (also when the set later returns to what it was)
		x, y := append([]string(nil), sb0.List...), append([]string(nil), s.List...)
		sort.Strings(x)
		sort.Strings(y)
		if fmt.Sprint(x) != fmt.Sprint(y) {
			r.rrSet, r.rrPicks = "", nil
		}
	}
	if cur && !s.Closed {
		// a completed check of a current target rebuilds the list from the targets' liveness
		alive := map[string]bool{}
		n := 0
		for _, t := range s.Targets {
			if t.Alive {
				alive[t.Address] = true
				n++
			}
		}
		same := n == len(s.List)
		for _, a := range s.List {
			same = same && alive[a]
		}
		if !same {
			var al []string
			for a := range alive {
				al = append(al, a)
			}
			sort.Strings(al)
			r.e.fail(r.e.Res.Property+"-live-list-stale", fmt.Sprintf("after a detector check of %q returned, calls are scheduled over %v although the live targets are %v", addr, s.List, al), r.replay())
		}
	}
	ops := []string{fmt.Sprintf("LCheckRet %d %s %s %s", r.idx(addr), coqBool(cur), coqBool(ok), r.nats(s.List))}
	// woken waiters reschedule and make their calls
	var saw []string
	woken := 0
	if s.Waiters == 0 && nwait > 0 {
		woken = r.collectWaiters()
		r.rt.mu.Lock()
		for _, a := range r.rt.log[nlog:] {
			saw = append(saw, fmt.Sprintf("SawAddr %d%%nat", r.idx(a)))
			r.checkRouted(a)
		}
		r.rt.mu.Unlock()
		for i := 0; i < woken; i++ {
			if i == 0 && r.sched == rpc.LeastTimeScheduling && sb0.ProbeAge > r.c.Tick {
				ops = append(ops, "LRescheduledProbe 0%nat")
			} else {
				ops = append(ops, "LRescheduled 0%nat")
			}
		}
		for _, a := range r.logSince(nlog) {
			ops = append(ops, fmt.Sprintf("LCallDone %d %s", r.idx(a), coqBool(!r.rt.up(a))))
		}
	}
	skip := r.logSince(nlog)
	if r.sched == rpc.RandomScheduling && woken > 0 {
		saw = nil // the picks are random; membership is checked by the oracle
		ops = ops[:1]
		r.emitLoose(before, ops, fmt.Sprintf("CheckRet %s ok=%v (woke %d)", addr, ok, woken))
		return
	}
	r.emit(before, ops, saw, true, skip, fmt.Sprintf("CheckRet %s ok=%v (woke %d)", addr, ok, woken))
}

// emitLoose records the trace step without a model case (used where the implementation's random picks
// cannot be replayed by the model)
func (r *lbRun) emitLoose(before string, ops []string, human string) {
	r.trace = append(r.trace, human)
}

func (r *lbRun) logSince(n int) []string {
	r.rt.mu.Lock()
	defer r.rt.mu.Unlock()
	return append([]string(nil), r.rt.log[n:]...)
}

// C16 oracle: every address a call is sent to is a current target or the Director's answer
func (r *lbRun) checkRouted(a string) {
	r.dmu.Lock()
	d := r.director
	r.dmu.Unlock()
	if a == "" {
		// Update drops empty strings, so the empty address is never a target, and this harness routes
		// through Call only (the non-blocking forms have a documented "no target" path that uses it)
		r.e.fail("C16-routed-to-empty-address", "a Call was sent to the empty address, which is not a target (Update ignores empty strings)", r.replay())
		return
	}
	if !r.current[a] && a != d {
		r.e.fail("C16-routed-to-removed-target", fmt.Sprintf("a call was sent to %q which is neither in the current target list nor the Director's answer", a), r.replay())
	}
}

func (r *lbRun) collectWaiters() int {
	n := 0
	for _, w := range r.waiting {
		select {
		case <-w.done:
			n++
		case <-time.After(5 * time.Second):
			r.e.fail("C18-waiter-stranded", "a waiting caller was not released although a target became live", r.replay())
		}
	}
	r.waiting = nil
	return n
}

// one routing decision through Client.Call
func (r *lbRun) route() {
	r.e.inflight(map[string]interface{}{"history_so_far": r.replay(), "next": "Call"})
	before, sb := r.snap()
	nlog := len(r.rt.log)
	w := &lbWaiter{done: make(chan error, 1)}
	go func() { var a, b []byte; w.done <- r.c.Call("S.M", &a, &b) }()
	quiesce()
	r.dmu.Lock()
	d := r.director
	r.dmu.Unlock()
	probe := sb.ProbeAge > r.c.Tick
	select {
	case err := <-w.done:
		log := r.logSince(nlog)
		var saw []string
		ops := []string{}
		rnd := 0
		skip := []string{}
		if len(log) == 1 {
			r.checkRouted(log[0])
			saw = []string{fmt.Sprintf("SawAddr %d%%nat", r.idx(log[0]))}
			for i, a := range sb.List {
				if a == log[0] {
					rnd = i
				}
			}
			if r.sched == rpc.RandomScheduling && len(sb.List) > 1 && d == "" {
				found := false
				for _, a := range sb.List {
					found = found || a == log[0]
				}
				if !found {
					r.e.fail("C17-random-not-live", fmt.Sprintf("Random picked %q which is not in the live list %v", log[0], sb.List), r.replay())
				}
			}
			// target.Update happens only when schedule returned a target object (more than one live target)
			if d == "" && len(sb.List) > 1 {
				ops = append(ops, fmt.Sprintf("LCallDone %d %s", r.idx(log[0]), coqBool(err == rpc.ErrDial)))
				skip = []string{log[0]}
			}
		} else if err == rpc.ErrShutdown {
			saw = []string{"SawShutdown"}
		} else if err == rpc.ErrDial {
			saw = []string{"SawErrDial"}
		}
		ops = append([]string{fmt.Sprintf("LRoute %d %s %d%%nat", r.idx(d), coqBool(probe), rnd)}, ops...)
		r.emit(before, ops, saw, false, skip, fmt.Sprintf("Call -> %v %v", log, err))
		// routing a call never reorders the list the rotation (and the least-time probes) walk over
		if _, sa := r.snap(); len(log) == 1 && err == nil && fmt.Sprint(sa.List) != fmt.Sprint(sb.List) && len(sa.List) == len(sb.List) {
			r.e.fail(r.e.Res.Property+"-rotation-list-reordered", fmt.Sprintf("a successful call changed the order of the live list from %v to %v: the rotation repeats and skips targets", sb.List, sa.List), r.replay())
		}
		// C17 oracles on the implementation's own snapshot
		if len(log) == 1 && d == "" && len(sb.List) > 1 && sb.Fallback == 0 {
			switch r.sched {
			case rpc.RoundRobinScheduling:
				if sb.Pos < len(sb.List) && sb.List[sb.Pos] != log[0] {
					r.e.fail("C17-rr-not-in-rotation", fmt.Sprintf("round robin picked %q, cursor pointed at %q", log[0], sb.List[sb.Pos]), r.replay())
				}
				// any n consecutive picks under an unchanged set of n live targets are n different targets
				set := append([]string(nil), sb.List...)
				sort.Strings(set)
				if key := strings.Join(set, ","); key != r.rrSet {
					r.rrSet, r.rrPicks = key, nil
				}
				r.rrPicks = append(r.rrPicks, log[0])
				if n := len(set); len(r.rrPicks) >= n {
					seen := map[string]bool{}
					for _, a := range r.rrPicks[len(r.rrPicks)-n:] {
						if seen[a] {
							r.e.fail("C17-rr-window-repeats", fmt.Sprintf("round robin over the unchanged live set %v: the last %d picks %v repeat a target", set, n, r.rrPicks[len(r.rrPicks)-n:]), r.replay())
						}
						seen[a] = true
					}
				}
			case rpc.LeastTimeScheduling:
				if probe {
					// a probe restarts the probe clock: the next one is a whole Tick away
					if _, sa := r.snap(); sa.ProbeAge > 2*time.Second {
						r.e.fail("C17-probe-clock-not-restarted", fmt.Sprintf("least-time: right after a probe call the probe clock reads %v (Tick %v): the next probe can follow in less than one Tick", sa.ProbeAge.Round(time.Millisecond), r.c.Tick), r.replay())
					}
				}
				if !probe {
					min := int64(1) << 62
					lat := map[string]int64{}
					for _, t := range sb.Targets {
						lat[t.Address] = t.Latency
					}
					for _, a := range sb.List {
						if lat[a] < min {
							min = lat[a]
						}
					}
					if lat[log[0]] != min {
						r.e.fail("C17-leasttime-not-minimal", fmt.Sprintf("least-time picked %q (latency %d) although the minimum is %d", log[0], lat[log[0]], min), r.replay())
					}
				}
			}
		}
	default:
		// it went on to wait
		r.waiting = append(r.waiting, w)
		r.emit(before, []string{fmt.Sprintf("LRoute %d %s 0%%nat", r.idx(d), coqBool(probe)), "LWaitReg"}, nil, false, nil, "Call -> waits")
	}
}

func (r *lbRun) close() {
	before, _ := r.snap()
	nwait := len(r.waiting)
	r.c.Close()
	r.closed = true
	quiesce()
	for _, w := range r.waiting {
		select {
		case err := <-w.done:
			if err != rpc.ErrShutdown {
				r.e.fail("C18-close-error-kind", fmt.Sprintf("a caller waiting at Close returned %v, want ErrShutdown", err), r.replay())
			}
		case <-time.After(5 * time.Second):
			r.e.fail("C18-waiter-stranded-at-close", "a waiting caller was not released by Close", r.replay())
		}
	}
	r.waiting = nil
	r.emit(before, []string{"LClose"}, nil, false, nil, fmt.Sprintf("Close (%d waiting)", nwait))
	// after Close every call fails at once
	t0 := time.Now()
	var a, b []byte
	err := r.c.Call("S.M", &a, &b)
	if err != rpc.ErrShutdown || time.Since(t0) > 2*time.Second {
		r.e.fail("C18-call-after-close", fmt.Sprintf("Call after Close returned %v after %v", err, time.Since(t0)), r.replay())
	}
	// release the checks still held so their goroutines end
	for _, w := range r.rt.pingGate.list() {
		r.rt.pingGate.release(w, rpc.ErrDial)
	}
}

func runLB(work, prop string) {
	e := newEnv(prop, "lb", work)
	defer e.finish()
	var cases []string
	n := 40
	if e.thorough() {
		n = 800
	}
	scheds := []rpc.Scheduling{rpc.RoundRobinScheduling, rpc.RandomScheduling, rpc.LeastTimeScheduling}
	for i := 0; i < n; i++ {
		r := newLBRun(e, scheds[i%3])
		scripted := i < 80 // the scripted histories wait for real detector ticks: a fixed number of them, whatever the tier
		if scripted && (i%10 == 6 || ((prop == "C18" || prop == "C17" || prop == "C16") && i%5 == 1)) {
			r.scriptSwap()
		} else if scripted && (i%10 == 8 || (prop == "C18" && i%5 == 2)) {
			r.scriptBlackout()
		} else if scripted && prop == "C18" && i%5 == 3 {
			r.scriptLastTarget()
		} else if i%4 == 3 || (prop == "C17" && i%2 == 1) || prop == "C08" {
			// many live targets: deep heap nodes, long rotations
			r = newLBRunN(e, scheds[(i/2)%3], 6+e.Rng.Intn(4))
			r.scriptFull()
		} else {
			r.script()
		}
		r.drainGates()
		cases = append(cases, r.cases...)
		e.count("history", fmt.Sprintf("%s-%s", schedCoq[r.sched], strings.Join(lbShape(r.trace), ",")))
		if len(e.Res.Samples) < 4 {
			e.sample(map[string]interface{}{"scheduling": schedCoq[r.sched], "trace": r.trace})
		}
	}
	cases = append(cases, lbFunctionCases(e)...)
	if prop == "C17" {
		cases = append(cases, lbFallbackScenario(e)...)
	}
	if prop == "C18" {
		lbTimeoutScenario(e)
		cases = append(cases, lbFallbackScenario(e)...)
		lbCloseStress(e)
		lbWakeTimeoutRace(e)
	}
	e.Res.Rule = "seeded random histories over a Client with an instrumented RoundTripper: Update with overlapping/duplicate/empty target lists, gated detector checks released with scripted health (current and stale generations), calls under the three scheduling policies (Director empty/listed/unlisted), callers that wait and are woken, probe clock backdating, Close; every operation is one model step from the snapshot before to the snapshot after; plus function-level cases for target.Update (EWMA) and minHeap; non-trivial = distinct (policy, operation-shape sequence)"
	names := writeCases(work, "From Coq Require Import List ZArith. Import ListNotations. From RPC Require Import RunLB. From RPC.LB Require Import Model. Open Scope Z_scope.", "anycase", cases, 200)
	e.Res.ModelCases = len(cases)
	e.Res.Extra["case_files"] = names
}

func lbShape(tr []string) []string {
	out := make([]string, len(tr))
	for i, s := range tr {
		f := strings.Fields(s)
		out[i] = f[0]
		if strings.Contains(s, "waits") {
			out[i] += "W"
		}
		if strings.Contains(s, "woke") && !strings.Contains(s, "woke 0") {
			out[i] += "!"
		}
	}
	return out
}

func (r *lbRun) script() {
	e := r.e
	steps := 8 + e.Rng.Intn(22)
	for _, a := range r.addrs {
		r.rt.health[a] = e.Rng.Intn(4) != 0
	}
	r.rt.health[""] = e.Rng.Intn(3) == 0 // a transport that would happily "reach" the empty address
	pick := func() []string {
		var l []string
		k := e.Rng.Intn(5)
		for j := 0; j < k; j++ {
			l = append(l, r.addrs[e.Rng.Intn(4)])
		}
		if e.Rng.Intn(3) == 0 {
			l = append(l, "")
		}
		return l
	}
	r.update(pick())
	for s := 0; s < steps && !r.closed; s++ {
		// let the detector spawn its checks for the current state
		if len(r.rt.pingGate.list()) == 0 {
			deadline := time.Now().Add(400 * time.Millisecond)
			for len(r.rt.pingGate.list()) == 0 && time.Now().Before(deadline) && r.anyDead() {
				time.Sleep(5 * time.Millisecond)
			}
		}
		r.settle()
		x := e.Rng.Intn(100)
		pings := r.rt.pingGate.list()
		switch {
		case x < 35 && len(pings) > 0:
			r.checkRet(pings[e.Rng.Intn(len(pings))])
		case x < 70:
			if len(r.waiting) < 3 {
				r.route()
			}
		case x < 80:
			r.update(pick())
		case x < 88:
			a := r.addrs[e.Rng.Intn(4)]
			r.rt.mu.Lock()
			r.rt.health[a] = !r.rt.health[a]
			r.rt.mu.Unlock()
			r.trace = append(r.trace, "Flip "+a)
		case x < 93:
			r.dmu.Lock()
			r.director = []string{"", "", r.addrs[e.Rng.Intn(4)], "elsewhere"}[e.Rng.Intn(4)]
			d := r.director
			r.dmu.Unlock()
			r.trace = append(r.trace, "Director="+d)
		case x < 97:
			r.c.VerifBackdateProbe(2 * time.Hour)
			r.trace = append(r.trace, "AdvanceProbeClock")
		default:
			r.close()
		}
	}
	if !r.closed {
		r.close()
	}
}

// scriptFull: every target of a larger list is brought up first, then calls are routed while per-target
// latencies change, probes are forced and targets fail: the heap gets deep nodes that become the minimum,
// the rotation gets long.
func (r *lbRun) scriptFull() {
	e := r.e
	all := append([]string(nil), r.addrs...)
	e.Rng.Shuffle(len(all), func(i, j int) { all[i], all[j] = all[j], all[i] })
	for _, a := range all {
		r.rt.health[a] = true
	}
	r.update(all)
	for guard := 0; guard < 200 && r.anyDead(); guard++ {
		deadline := time.Now().Add(400 * time.Millisecond)
		for len(r.rt.pingGate.list()) == 0 && time.Now().Before(deadline) {
			time.Sleep(2 * time.Millisecond)
		}
		r.settle()
		if ps := r.rt.pingGate.list(); len(ps) > 0 {
			r.checkRet(ps[0])
		}
	}
	delays := []time.Duration{0, 60 * time.Microsecond, 250 * time.Microsecond, 900 * time.Microsecond}
	for _, a := range all {
		r.rt.delay[a] = delays[1+e.Rng.Intn(3)]
	}
	steps := 25 + e.Rng.Intn(30)
	for s := 0; s < steps && !r.closed; s++ {
		// now and then give the detector's next tick time to spawn a check for a dead target
		if len(r.rt.pingGate.list()) == 0 && e.Rng.Intn(3) == 0 && r.anyDead() {
			deadline := time.Now().Add(150 * time.Millisecond)
			for len(r.rt.pingGate.list()) == 0 && time.Now().Before(deadline) {
				time.Sleep(2 * time.Millisecond)
			}
		}
		r.settle()
		x := e.Rng.Intn(100)
		pings := r.rt.pingGate.list()
		switch {
		case x < 25 && len(pings) > 0:
			r.checkRet(pings[e.Rng.Intn(len(pings))])
		case x < 65:
			if len(r.waiting) < 3 {
				r.route()
			}
		case x < 80:
			a := all[e.Rng.Intn(len(all))]
			d := delays[e.Rng.Intn(len(delays))]
			r.rt.mu.Lock()
			r.rt.delay[a] = d
			r.rt.mu.Unlock()
			r.trace = append(r.trace, fmt.Sprintf("Delay %s=%v", a, d))
		case x < 90:
			r.c.VerifBackdateProbe(2 * time.Hour)
			r.trace = append(r.trace, "AdvanceProbeClock")
		case x < 97:
			a := all[e.Rng.Intn(len(all))]
			r.rt.mu.Lock()
			r.rt.health[a] = !r.rt.health[a]
			r.rt.mu.Unlock()
			r.trace = append(r.trace, "Flip "+a)
		default:
			r.update(all[:1+e.Rng.Intn(len(all))])
		}
	}
	if !r.closed {
		r.close()
	}
}

// scriptSwap: one target recovers while another dies, and the recovered one's check completes first: the
// live set changes from {b,c} to {a,c} without changing its size.
func (r *lbRun) scriptSwap() {
	a, b, c := r.addrs[0], r.addrs[1], r.addrs[2]
	r.rt.health[a], r.rt.health[b], r.rt.health[c] = false, true, true
	r.update([]string{a, b, c})
	waitPings := func() {
		deadline := time.Now().Add(400 * time.Millisecond)
		for len(r.rt.pingGate.list()) == 0 && time.Now().Before(deadline) {
			time.Sleep(2 * time.Millisecond)
		}
		r.settle()
	}
	release := func(addr string) bool {
		for _, w := range r.rt.pingGate.list() {
			if w.tag.(string) == addr {
				r.checkRet(w)
				return true
			}
		}
		return false
	}
	for guard := 0; guard < 20; guard++ {
		waitPings()
		_, s := r.snap()
		if len(s.List) == 2 {
			break
		}
		ps := r.rt.pingGate.list()
		if len(ps) == 0 {
			continue
		}
		r.checkRet(ps[0])
	}
	// a comes back, b goes away
	r.rt.mu.Lock()
	r.rt.health[a], r.rt.health[b] = true, false
	r.rt.mu.Unlock()
	r.trace = append(r.trace, "Flip "+a, "Flip "+b)
	bDead := false
	for k := 0; k < 12 && !bDead; k++ { // until a call has hit b and failed
		r.route()
		_, s := r.snap()
		for _, t := range s.Targets {
			if t.Address == b && !t.Alive {
				bDead = true
			}
		}
	}
	if !bDead { // (random picks never reached b: this history does not get to the swap)
		if !r.closed {
			r.close()
		}
		return
	}
	// the recovered target's check completes first
	for guard := 0; guard < 10; guard++ {
		waitPings()
		if release(a) {
			break
		}
	}
	waitPings()
	for guard := 0; guard < 10 && release(b); guard++ {
	}
	nlog := len(r.rt.log)
	for k := 0; k < 6; k++ {
		r.route()
	}
	for _, x := range r.logSince(nlog) {
		if x == b {
			r.e.fail(r.e.Res.Property+"-dead-target-keeps-traffic", fmt.Sprintf("calls are still sent to %q after it was found dead and %q had taken its place among the live targets", b, a), r.replay())
			break
		}
	}
	if !r.closed {
		r.close()
	}
}

// scriptBlackout: every target goes away and is found dead, then the very same set comes back.
func (r *lbRun) scriptBlackout() {
	a, b := r.addrs[0], r.addrs[1]
	r.rt.health[a], r.rt.health[b] = true, true
	r.update([]string{a, b})
	waitPings := func() {
		deadline := time.Now().Add(400 * time.Millisecond)
		for len(r.rt.pingGate.list()) == 0 && time.Now().Before(deadline) {
			time.Sleep(2 * time.Millisecond)
		}
		r.settle()
	}
	drain := func(max int) {
		for guard := 0; guard < max; guard++ {
			waitPings()
			ps := r.rt.pingGate.list()
			if len(ps) == 0 {
				return
			}
			r.checkRet(ps[0])
		}
	}
	drain(6)
	for round := 0; round < 2; round++ {
		r.rt.mu.Lock()
		r.rt.health[a], r.rt.health[b] = false, false
		r.rt.mu.Unlock()
		r.trace = append(r.trace, "Flip "+a, "Flip "+b)
		for k := 0; k < 6; k++ { // calls fail and mark their targets dead
			if _, s := r.snap(); len(s.List) == 0 || len(r.waiting) > 0 {
				break
			}
			r.route()
		}
		drain(8) // the checks fail as well: nothing is live
		r.rt.mu.Lock()
		r.rt.health[a], r.rt.health[b] = true, true
		r.rt.mu.Unlock()
		r.trace = append(r.trace, "Flip "+a, "Flip "+b)
		if len(r.waiting) < 2 {
			r.route() // a caller that has to wait for a target
		}
		drain(8) // the same set comes back: the waiter is released, calls flow again
		nlog := len(r.rt.log)
		for k := 0; k < 3; k++ {
			r.route()
		}
		if len(r.waiting) > 0 || len(r.logSince(nlog)) == 0 {
			r.e.fail(r.e.Res.Property+"-no-recovery-after-blackout", fmt.Sprintf("every target had gone away and the same targets came back and were found live, yet calls still wait (%d waiting)", len(r.waiting)), r.replay())
			break
		}
	}
	if !r.closed {
		r.close()
	}
}

// scriptLastTarget: the last live target fails through a call that was scheduled while two targets were
// live and fails later; nothing is live; then that same target comes back.  (A call held in flight breaks the
// one-operation-one-step shape, so this history is judged by its oracle only.)
func (r *lbRun) scriptLastTarget() {
	a, b := r.addrs[0], r.addrs[1]
	pid := r.e.Res.Property
	r.rt.health[a], r.rt.health[b] = true, true
	r.update([]string{a, b})
	waitPings := func() {
		deadline := time.Now().Add(400 * time.Millisecond)
		for len(r.rt.pingGate.list()) == 0 && time.Now().Before(deadline) {
			time.Sleep(2 * time.Millisecond)
		}
		quiesce()
	}
	release := func(max int) {
		for guard := 0; guard < max; guard++ {
			waitPings()
			ps := r.rt.pingGate.list()
			if len(ps) == 0 {
				return
			}
			w := ps[0]
			if r.rt.up(w.tag.(string)) {
				r.rt.pingGate.release(w, nil)
			} else {
				r.rt.pingGate.release(w, rpc.ErrDial)
			}
			quiesce()
		}
	}
	live := func() []string { return r.c.VerifSnapshot().List }
	release(6)
	if len(live()) != 2 {
		return
	}
	// a call to a, scheduled now, stays in flight
	r.rt.mu.Lock()
	r.rt.hold[a] = true
	r.rt.mu.Unlock()
	heldDone := make(chan error, 4)
	for k := 0; k < 4 && len(r.rt.callGate.list()) == 0; k++ {
		go func() { var x, y []byte; heldDone <- r.c.Call("S.M", &x, &y) }()
		quiesce()
	}
	if len(r.rt.callGate.list()) == 0 {
		return
	}
	r.rt.mu.Lock()
	r.rt.hold[a] = false
	r.rt.health[b] = false
	r.rt.mu.Unlock()
	// b is found dead: calls to it fail, its check fails
	for k := 0; k < 6 && len(live()) == 2; k++ {
		var x, y []byte
		r.c.Call("S.M", &x, &y)
		release(4)
	}
	// now a goes away too, and the call in flight on it fails
	r.rt.mu.Lock()
	r.rt.health[a] = false
	r.rt.mu.Unlock()
	for _, w := range r.rt.callGate.list() {
		r.rt.callGate.release(w, rpc.ErrDial)
	}
	quiesce()
	release(6)
	r.trace = append(r.trace, "both targets up", "call held on "+a, b+" down and found dead", a+" down, held call fails", "nothing live: "+fmt.Sprint(live()))
	if len(live()) != 0 {
		return
	}
	// a comes back
	r.rt.mu.Lock()
	r.rt.health[a] = true
	r.rt.mu.Unlock()
	got := make(chan error, 1)
	go func() { var x, y []byte; got <- r.c.Call("S.M", &x, &y) }()
	quiesce()
	release(8)
	select {
	case err := <-got:
		if err != nil {
			r.e.fail(pid+"-no-recovery-after-blackout", fmt.Sprintf("the last live target failed and came back; a caller that waited for it got %v", err), r.replay())
		}
	case <-time.After(3 * time.Second):
		r.e.fail(pid+"-no-recovery-after-blackout", fmt.Sprintf("the last live target (%s) failed and came back and was probed live, yet a waiting caller was not released within 3s (live list %v)", a, live()), r.replay())
	}
	r.e.count("last-target", "lt")
	r.c.Close()
	r.closed = true
}

// drainGates lets the detector checks (and calls) still held at the end of a history return, so that their
// goroutines end: thousands of parked goroutines make every quiescence test slower
func (r *lbRun) drainGates() {
	if !r.closed {
		r.c.Close()
		r.closed = true
	}
	for k := 0; k < 5; k++ {
		for _, w := range r.rt.pingGate.list() {
			r.rt.pingGate.release(w, rpc.ErrDial)
		}
		for _, w := range r.rt.callGate.list() {
			r.rt.callGate.release(w, rpc.ErrDial)
		}
		time.Sleep(200 * time.Microsecond)
	}
}

func (r *lbRun) anyDead() bool {
	_, s := r.snap()
	for _, t := range s.Targets {
		if !t.Alive {
			return true
		}
	}
	return false
}

// EWMA and heap, function level
func lbFunctionCases(e *Env) []string {
	var out []string
	max := int64(time.Minute)
	olds := []int64{0, 1, 999, 1000000, 123456789, max - 1, max, max + 5}
	news := []int64{0, 1, 1000, 5000000, 987654321, max}
	for _, o := range olds {
		for _, n := range news {
			for _, ed := range []bool{false, true} {
				var err error
				if ed {
					err = rpc.ErrDial
				}
				lat, alive := rpc.VerifTargetUpdate(o, true, 0.8, n, err)
				out = append(out, fmt.Sprintf("LFun (FEwma %d %d %s %d %s)", o, n, coqBool(ed), lat, coqBool(alive)))
				e.count("ewma", fmt.Sprintf("ewma-%d-%d-%v", o, n, ed))
				// C17 oracle: documented EWMA within float tolerance, unreachable => maximum
				if ed && lat != max {
					e.fail("C17-ewma-reset", fmt.Sprintf("unreachable target latency %d, want the maximum %d", lat, max), nil)
				}
				if !ed && o < max {
					want := (o*4 + n*1) / 5
					if d := lat - want; d > 2+o>>50 || d < -2-o>>50 {
						e.fail("C17-ewma-value", fmt.Sprintf("EWMA(old=%d,new=%d) = %d, want %d", o, n, lat, want), nil)
					}
				}
			}
		}
	}
	for i := 0; i < 60; i++ {
		n := 1 + e.Rng.Intn(12)
		lats := make([]int64, n)
		var ls []string
		for j := range lats {
			lats[j] = int64(e.Rng.Intn(6)) * 1000
			ls = append(ls, fmt.Sprintf("%d", lats[j]))
		}
		perm := rpc.VerifMinHeap(lats)
		var ps []string
		minv, rootv := int64(1<<62), lats[perm[0]]
		for j, p := range perm {
			ps = append(ps, fmt.Sprintf("%d", p))
			if lats[j] < minv {
				minv = lats[j]
			}
		}
		if rootv != minv {
			e.fail("C17-heap-root-not-min", fmt.Sprintf("minHeap(%v) puts latency %d at the root, minimum is %d", lats, rootv, minv), nil)
		}
		out = append(out, fmt.Sprintf("LFun (FHeap [%s] [%s]%%nat)", strings.Join(ls, "; "), strings.Join(ps, "; ")))
		e.count("heap", fmt.Sprintf("heap-%v", lats))
	}
	sort.Strings(nil)
	return out
}

// waiting callers and DialTimeout (real time, generous margins): nobody waits longer than DialTimeout
func lbTimeoutScenario(e *Env) {
	rt := &fakeRT{health: map[string]bool{"t1": false}}
	c := rpc.NewClient(nil)
	c.Transport = rt
	c.DialTimeout = 300 * time.Millisecond
	c.Update("t1")
	done := make(chan error, 8)
	t0 := time.Now()
	for i := 0; i < 4; i++ {
		go func() { var a, b []byte; done <- c.Call("S.M", &a, &b) }()
	}
	for i := 0; i < 4; i++ {
		select {
		case err := <-done:
			if err != rpc.ErrTimeout {
				e.fail("C18-timeout-error-kind", fmt.Sprintf("a caller with no live target returned %v, want ErrTimeout", err), nil)
			}
		case <-time.After(5 * time.Second):
			e.fail("C18-waits-longer-than-dialtimeout", "a caller with no live target was still waiting 5s after a 300ms DialTimeout", nil)
		}
	}
	if el := time.Since(t0); el < 250*time.Millisecond {
		e.fail("C18-timeout-too-early", fmt.Sprintf("callers gave up after %v, DialTimeout is 300ms", el), nil)
	}
	e.count("timeout-scenario", "timeout-4-waiters")
	c.Close()
	for _, w := range rt.pingGate.list() {
		rt.pingGate.release(w, rpc.ErrDial)
	}
}
