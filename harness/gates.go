package main

// Gated fakes at the library's public seams, and quiescence detection.
//
// Every interleaving point the model distinguishes is a point where the
// harness can hold the implementation: a fake socket.Messages (ReadMessage
// blocks until the harness feeds a frame or an error, WriteMessage announces
// the frame and blocks for a scripted result), a header Encoder whose decode
// blocks (holds a received frame between the reader and Conn.read /
// ServeRequest), and a body Codec whose decode blocks (holds finishCall /
// readRequestBody).  After releasing a gate the harness waits until every
// other goroutine is blocked again (runtime.Stack states) — no sleeps.

import (
	"bytes"
	"errors"
	"fmt"
	"regexp"
	"runtime"
	"sync"
	"time"

	"github.com/hslam/rpc"
)

var goroutineHdr = regexp.MustCompile(`(?m)^goroutine (\d+) \[([^\],]+)(?:, [^\]]*)?\]:`)

// quiesce waits until every goroutine except the caller is blocked.
func quiesce() {
	buf := make([]byte, 1<<20)
	stable := 0
	deadline := time.Now().Add(20 * time.Second)
	for stable < 3 {
		runtime.Gosched()
		n := runtime.Stack(buf, true)
		for n == len(buf) {
			buf = make([]byte, 2*len(buf))
			n = runtime.Stack(buf, true)
		}
		busy := 0
		first := true
		for _, m := range goroutineHdr.FindAllSubmatch(buf[:n], -1) {
			st := string(m[2])
			if first { // the calling goroutine is printed first
				first = false
				continue
			}
			if st == "running" || st == "runnable" {
				busy++
			}
		}
		if busy == 0 {
			stable++
		} else {
			stable = 0
		}
		if time.Now().After(deadline) {
			panic("quiesce: goroutines keep running (livelock?)\n" + string(buf[:n]))
		}
	}
}

// ---- gate: a rendezvous the harness can observe and release ----

type gate struct {
	mu      sync.Mutex
	waiting []*waiter
}

type waiter struct {
	tag  interface{}
	data []byte
	rel  chan interface{}
}

// enter blocks the calling library goroutine until the harness releases it.
func (g *gate) enter(tag interface{}, data []byte) interface{} {
	w := &waiter{tag: tag, data: data, rel: make(chan interface{}, 1)}
	g.mu.Lock()
	g.waiting = append(g.waiting, w)
	g.mu.Unlock()
	return <-w.rel
}

func (g *gate) list() []*waiter {
	g.mu.Lock()
	defer g.mu.Unlock()
	return append([]*waiter(nil), g.waiting...)
}

func (g *gate) release(w *waiter, v interface{}) {
	g.mu.Lock()
	for i, x := range g.waiting {
		if x == w {
			g.waiting = append(g.waiting[:i], g.waiting[i+1:]...)
			break
		}
	}
	g.mu.Unlock()
	w.rel <- v
}

// ---- fake socket.Messages ----

type readItem struct {
	frame []byte
	err   error
}

type gatedMessages struct {
	readCh    chan readItem
	mu        sync.Mutex
	readerIn  bool // a goroutine is blocked in ReadMessage
	closed    bool
	writeGate gate
	passWrite bool     // writes succeed at once (recorded in written)
	written   [][]byte // frames written (when passWrite)
	onWrite   func([]byte)
}

func newGatedMessages() *gatedMessages {
	return &gatedMessages{readCh: make(chan readItem, 1024)}
}

func (m *gatedMessages) ReadMessage(buf []byte) ([]byte, error) {
	m.mu.Lock()
	m.readerIn = true
	m.mu.Unlock()
	it := <-m.readCh
	m.mu.Lock()
	m.readerIn = false
	m.mu.Unlock()
	if it.err != nil {
		return nil, it.err
	}
	var p []byte
	if cap(buf) >= len(it.frame) {
		p = buf[:len(it.frame)]
	} else {
		p = make([]byte, len(it.frame))
	}
	copy(p, it.frame)
	return p, nil
}

func (m *gatedMessages) readerWaiting() bool {
	m.mu.Lock()
	defer m.mu.Unlock()
	return m.readerIn && len(m.readCh) == 0
}

func (m *gatedMessages) WriteMessage(b []byte) error {
	cp := append([]byte(nil), b...)
	if m.passWrite {
		m.mu.Lock()
		m.written = append(m.written, cp)
		f := m.onWrite
		m.mu.Unlock()
		if f != nil {
			f(cp)
		}
		return nil
	}
	r := m.writeGate.enter(nil, cp)
	if r == nil {
		return nil
	}
	return r.(error)
}

func (m *gatedMessages) Close() error {
	m.mu.Lock()
	m.closed = true
	m.mu.Unlock()
	return nil
}

func (m *gatedMessages) isClosed() bool {
	m.mu.Lock()
	defer m.mu.Unlock()
	return m.closed
}

// ---- gated header Encoder (client side: holds response header decode;
// server side: holds request header decode) ----

type gatedEncoder struct {
	inner      rpc.Encoder
	decodeGate *gate
	holdResp   bool
	holdReq    bool
}

func (e *gatedEncoder) NewRequest() rpc.Request   { return e.inner.NewRequest() }
func (e *gatedEncoder) NewResponse() rpc.Response { return e.inner.NewResponse() }
func (e *gatedEncoder) NewCodec() rpc.Codec       { return &gatedHeaderCodec{e, e.inner.NewCodec()} }

type gatedHeaderCodec struct {
	e     *gatedEncoder
	inner rpc.Codec
}

func (c *gatedHeaderCodec) Marshal(buf []byte, v interface{}) ([]byte, error) {
	return c.inner.Marshal(buf, v)
}
func (c *gatedHeaderCodec) Unmarshal(data []byte, v interface{}) error {
	_, isResp := v.(rpc.Response)
	_, isReq := v.(rpc.Request)
	if (isResp && c.e.holdResp) || (isReq && c.e.holdReq) {
		c.e.decodeGate.enter(nil, append([]byte(nil), data...))
	}
	return c.inner.Unmarshal(data, v)
}

// ---- gated body codec: values are *[]byte; decode of a body that starts
// with the byte 0xBD fails (models an undecodable body) ----

type gatedBody struct {
	bodyGate *gate
	hold     bool
}

var errBadBody = errors.New("bad body")

func (c *gatedBody) Marshal(buf []byte, v interface{}) ([]byte, error) {
	p, ok := v.(*[]byte)
	if !ok || p == nil {
		return nil, fmt.Errorf("gatedBody: not *[]byte")
	}
	if len(*p) > 0 && (*p)[0] == 0xBE {
		return nil, errors.New("cannot encode")
	}
	return *p, nil
}

func (c *gatedBody) Unmarshal(data []byte, v interface{}) error {
	if c.hold {
		c.bodyGate.enter(v, nil)
	}
	p, ok := v.(*[]byte)
	if !ok || p == nil {
		return fmt.Errorf("gatedBody: not *[]byte")
	}
	if len(data) > 0 && data[0] == 0xBD {
		return errBadBody
	}
	*p = data
	return nil
}

// ---- small helpers ----

func pbRespFrame(seq uint64, errText string, body []byte) []byte {
	return refPBResp(hdr{Seq: seq, Errtxt: []byte(errText), Body: body})
}

func decodePBReq(frame []byte) (h hdr, err error) {
	return decodeReq(rpc.NewPBEncoder(), frame)
}

func errString(err error) string {
	if err == nil {
		return ""
	}
	return err.Error()
}

var _ = bytes.Equal
