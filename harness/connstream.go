package main

// Connection loss while a stream open or close request is outstanding (C03):
// NewStream / Stream.Close are calls like any other and must fail fast when
// the connection ends.  Oracle only (the stream kinds are modelled in
// Stream/, the sweep in Conn/).

import (
	"fmt"
	"io"
	"time"

	"github.com/hslam/rpc"
)

func connStreamCuts(e *Env) {
	for _, m := range [][2]bool{{false, false}, {true, false}, {false, true}} {
		for _, eof := range []bool{true, false} {
			// (a) NewStream outstanding at the cut
			r := newConnRun(e, m[0], m[1])
			type res struct {
				s   rpc.Stream
				err error
			}
			ch := make(chan res, 1)
			go func() { s, err := r.conn.NewStream("S.Chat"); ch <- res{s, err} }()
			quiesce()
			for _, w := range r.msgs.writeGate.list() {
				r.msgs.writeGate.release(w, nil)
			}
			quiesce()
			if eof {
				r.msgs.readCh <- readItem{err: io.EOF}
			} else {
				r.msgs.readCh <- readItem{err: fmt.Errorf("read: boom")}
			}
			select {
			case x := <-ch:
				if x.err == nil {
					e.fail("C03-stream-open-succeeds-after-cut", "NewStream returned no error although the connection ended before the acknowledgement", map[string]interface{}{"directIO": m[0], "pipelining": m[1], "eof": eof})
				}
			case <-time.After(4 * time.Second):
				e.fail("C03-stream-open-hangs-at-cut", "NewStream was still blocked 4s after the connection ended with its open request outstanding", map[string]interface{}{"directIO": m[0], "pipelining": m[1], "eof": eof})
			}
			e.count("stream-open-at-cut", fmt.Sprintf("soc-%v-%v-%v", m[0], m[1], eof))

			// (b) Stream.Close outstanding at the cut
			r2 := newConnRun(e, m[0], m[1])
			go func() { s, err := r2.conn.NewStream("S.Chat"); ch <- res{s, err} }()
			quiesce()
			var seq uint64
			for _, w := range r2.msgs.writeGate.list() {
				if h, err := decodePBReq(w.data); err == nil {
					seq = h.Seq
				}
				r2.msgs.writeGate.release(w, nil)
			}
			quiesce()
			r2.msgs.readCh <- readItem{frame: pbRespFrame(seq, "", nil)} // the acknowledgement
			quiesce()
			for len(r2.decGate.list()) > 0 {
				r2.decGate.release(r2.decGate.list()[0], nil)
				quiesce()
			}
			var st rpc.Stream
			select {
			case x := <-ch:
				st = x.s
				if x.err != nil {
					e.fail("C09-open-failed", fmt.Sprintf("NewStream failed on a healthy connection: %v", x.err), nil)
				}
			case <-time.After(4 * time.Second):
				e.fail("C09-open-failed", "NewStream did not return after its acknowledgement", nil)
			}
			if st != nil {
				cerr := make(chan error, 1)
				go func() { cerr <- st.Close() }()
				quiesce()
				for _, w := range r2.msgs.writeGate.list() {
					r2.msgs.writeGate.release(w, nil)
				}
				quiesce()
				r2.msgs.readCh <- readItem{err: io.EOF}
				select {
				case <-cerr:
				case <-time.After(4 * time.Second):
					e.fail("C03-stream-close-hangs-at-cut", "Stream.Close was still blocked 4s after the connection ended with its close request outstanding", map[string]interface{}{"directIO": m[0], "pipelining": m[1]})
				}
			}
			e.count("stream-close-at-cut", fmt.Sprintf("scc-%v-%v-%v", m[0], m[1], eof))
		}
	}
}
