package main

// Connection loss while a stream open or close request is outstanding (C03):
// NewStream / Stream.Close are calls like any other and must fail fast when
// the connection ends.  Oracle only (the stream kinds are modelled in
// Stream/, the sweep in Conn/).

import (
	"fmt"
	"io"
	"time"

	"github.com/hslam/rpc"
)

func connStreamCuts(e *Env) {
	for _, m := range [][2]bool{{false, false}, {true, false}, {false, true}} {
		for _, eof := range []bool{true, false} {
			// (a) NewStream outstanding at the cut
			r := newConnRun(e, m[0], m[1])
			type res struct {
				s   rpc.Stream
				err error
			}
			ch := make(chan res, 1)
			go func() { s, err := r.conn.NewStream("S.Chat"); ch <- res{s, err} }()
			quiesce()
			for _, w := range r.msgs.writeGate.list() {
				r.msgs.writeGate.release(w, nil)
			}
			quiesce()
			if eof {
				r.msgs.readCh <- readItem{err: io.EOF}
			} else {
				r.msgs.readCh <- readItem{err: fmt.Errorf("read: boom")}
			}
			select {
			case x := <-ch:
				if x.err == nil {
					e.fail("C03-stream-open-succeeds-after-cut", "NewStream returned no error although the connection ended before the acknowledgement", map[string]interface{}{"directIO": m[0], "pipelining": m[1], "eof": eof})
				}
			case <-time.After(4 * time.Second):
				e.fail("C03-stream-open-hangs-at-cut", "NewStream was still blocked 4s after the connection ended with its open request outstanding", map[string]interface{}{"directIO": m[0], "pipelining": m[1], "eof": eof})
			}
			e.count("stream-open-at-cut", fmt.Sprintf("soc-%v-%v-%v", m[0], m[1], eof))

			// (b) Stream.Close outstanding at the cut
			r2 := newConnRun(e, m[0], m[1])
			go func() { s, err := r2.conn.NewStream("S.Chat"); ch <- res{s, err} }()
			quiesce()
			var seq uint64
			for _, w := range r2.msgs.writeGate.list() {
				if h, err := decodePBReq(w.data); err == nil {
					seq = h.Seq
				}
				r2.msgs.writeGate.release(w, nil)
			}
			quiesce()
			r2.msgs.readCh <- readItem{frame: pbRespFrame(seq, "", nil)} // the acknowledgement
			quiesce()
			for len(r2.decGate.list()) > 0 {
				r2.decGate.release(r2.decGate.list()[0], nil)
				quiesce()
			}
			var st rpc.Stream
			select {
			case x := <-ch:
				st = x.s
				if x.err != nil {
					e.fail("C09-open-failed", fmt.Sprintf("NewStream failed on a healthy connection: %v", x.err), nil)
				}
			case <-time.After(4 * time.Second):
				e.fail("C09-open-failed", "NewStream did not return after its acknowledgement", nil)
			}
			if st != nil {
				cerr := make(chan error, 1)
				go func() { cerr <- st.Close() }()
				quiesce()
				for _, w := range r2.msgs.writeGate.list() {
					r2.msgs.writeGate.release(w, nil)
				}
				quiesce()
				r2.msgs.readCh <- readItem{err: io.EOF}
				select {
				case <-cerr:
				case <-time.After(4 * time.Second):
					e.fail("C03-stream-close-hangs-at-cut", "Stream.Close was still blocked 4s after the connection ended with its close request outstanding", map[string]interface{}{"directIO": m[0], "pipelining": m[1]})
				}
			}
			e.count("stream-close-at-cut", fmt.Sprintf("scc-%v-%v-%v", m[0], m[1], eof))

			// (c) Close on a connection whose peer has gone silent (no acknowledgement will come): the
			// local end is stopped at once: a reader blocked on the stream returns, later writes are refused
			r3 := newConnRun(e, m[0], m[1])
			st3 := openGatedStream(e, r3, ch3())
			if st3 != nil {
				rd := make(chan error, 1)
				go func() {
					var x []byte
					rd <- st3.ReadMessage(nil, &x)
				}()
				quiesce()
				go st3.Close()
				quiesce()
				for _, w := range r3.msgs.writeGate.list() { // the close request leaves; nobody answers it
					r3.msgs.writeGate.release(w, nil)
				}
				select {
				case err := <-rd:
					if err != rpc.ErrStreamShutdown {
						e.fail(pidOf(e)+"-blocked-read-error-kind", fmt.Sprintf("a ReadMessage blocked at Close returned %v", err), nil)
					}
				case <-time.After(3 * time.Second):
					e.fail(pidOf(e)+"-stream-reader-stays-blocked", "Stream.Close was called while the peer had gone silent (its acknowledgement never comes): a ReadMessage blocked on that stream was not released within 3s", map[string]interface{}{"directIO": m[0], "pipelining": m[1]})
				}
				wr := make(chan error, 1)
				go func() { mm := []byte{1}; wr <- st3.WriteMessage(&mm) }()
				select {
				case err := <-wr:
					if err != rpc.ErrStreamShutdown {
						e.fail(pidOf(e)+"-write-after-close", fmt.Sprintf("WriteMessage after Close (peer silent) returned %v", err), nil)
					}
				case <-time.After(2 * time.Second):
					e.fail(pidOf(e)+"-write-after-close", "WriteMessage after Close (peer silent) was not refused: it went on to the transport", nil)
					for _, w := range r3.msgs.writeGate.list() {
						r3.msgs.writeGate.release(w, nil)
					}
				}
				r3.msgs.readCh <- readItem{err: io.EOF}
				quiesce()
			}
			e.count("stream-close-silent-peer", fmt.Sprintf("scs-%v-%v-%v", m[0], m[1], eof))

			// (d) client pipelining: the write of the open request returns late - after the acknowledgement
			// was processed and after the connection has ended; the stream is stopped all the same
			if m[1] {
				r4 := newConnRun(e, m[0], m[1])
				type res4 struct {
					s   rpc.Stream
					err error
				}
				c4 := make(chan res4, 1)
				go func() { s, err := r4.conn.NewStream("S.Chat"); c4 <- res4{s, err} }()
				quiesce()
				var seq uint64
				held := r4.msgs.writeGate.list()
				for _, w := range held {
					if h, err := decodePBReq(w.data); err == nil {
						seq = h.Seq
					}
				}
				// the peer has the request although the local write has not returned yet
				r4.msgs.readCh <- readItem{frame: pbRespFrame(seq, "", nil)}
				quiesce()
				for len(r4.decGate.list()) > 0 {
					r4.decGate.release(r4.decGate.list()[0], nil)
					quiesce()
				}
				var st4 rpc.Stream
				select {
				case x := <-c4:
					st4 = x.s
				case <-time.After(2 * time.Second):
				}
				if st4 != nil {
					if eof {
						r4.msgs.readCh <- readItem{err: io.EOF}
					} else {
						r4.msgs.readCh <- readItem{err: fmt.Errorf("read: boom")}
					}
					quiesce()
					for _, w := range held {
						r4.msgs.writeGate.release(w, nil)
					}
					quiesce()
					if _, err, ok := readWithTimeout(st4, 3*time.Second); !ok {
						e.fail(pidOf(e)+"-stream-reader-stays-blocked", "client pipelining: the open request's write returned only after the connection had ended; a ReadMessage on that stream blocks for ever", map[string]interface{}{"directIO": m[0], "pipelining": m[1], "eof": eof})
					} else if err != rpc.ErrStreamShutdown {
						e.fail(pidOf(e)+"-blocked-read-error-kind", fmt.Sprintf("ReadMessage on a stream of an ended connection returned %v", err), nil)
					}
				}
				for _, w := range r4.msgs.writeGate.list() {
					r4.msgs.writeGate.release(w, nil)
				}
				e.count("stream-open-write-lags", fmt.Sprintf("sowl-%v-%v", m[0], eof))
			}
		}
	}
}

func pidOf(e *Env) string { return e.Res.Property }

type gres struct {
	s   rpc.Stream
	err error
}

func ch3() chan gres { return make(chan gres, 1) }

// openGatedStream opens a stream on a gated connection: releases the open request, feeds the acknowledgement
func openGatedStream(e *Env, r *connRun, ch chan gres) rpc.Stream {
	go func() { s, err := r.conn.NewStream("S.Chat"); ch <- gres{s, err} }()
	quiesce()
	var seq uint64
	for _, w := range r.msgs.writeGate.list() {
		if h, err := decodePBReq(w.data); err == nil {
			seq = h.Seq
		}
		r.msgs.writeGate.release(w, nil)
	}
	quiesce()
	r.msgs.readCh <- readItem{frame: pbRespFrame(seq, "", nil)}
	quiesce()
	for len(r.decGate.list()) > 0 {
		r.decGate.release(r.decGate.list()[0], nil)
		quiesce()
	}
	select {
	case x := <-ch:
		if x.err != nil {
			e.fail("C09-open-failed", fmt.Sprintf("NewStream failed on a healthy connection: %v", x.err), nil)
			return nil
		}
		return x.s
	case <-time.After(4 * time.Second):
		e.fail("C09-open-failed", "NewStream did not return after its acknowledgement", nil)
		return nil
	}
}
