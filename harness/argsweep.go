package main

// C04, "invoked exactly once with arguments equal to what the client sent":
// a sweep over header encoders, server modes and argument sizes around every
// length-prefix boundary.  The handler records what it was given.

import (
	"bytes"
	"crypto/sha256"
	"fmt"
	"sync"
	"time"

	"github.com/hslam/rpc"
	"github.com/hslam/socket"
)

type ArgSvc struct {
	mu   sync.Mutex
	seen map[int][][32]byte // by size: digests of the arguments of each invocation
}

func (a *ArgSvc) Take(req *[]byte, res *[]byte) error {
	a.mu.Lock()
	a.seen[len(*req)] = append(a.seen[len(*req)], sha256.Sum256(*req))
	a.mu.Unlock()
	*res = []byte{byte(len(*req)), byte(len(*req) >> 8)}
	return nil
}

func serverArgsSweep(e *Env) {
	sizes := []int{0, 1, 2, 63, 64, 126, 127, 128, 129, 130, 191, 192, 254, 255, 256, 257, 383, 384, 385, 511, 512, 513, 640, 1023, 1024, 16382, 16383, 16384, 16385, 65535, 65536, 70000}
	if e.thorough() {
		for n := 0; n < 1100; n++ {
			sizes = append(sizes, n)
		}
	}
	for _, enc := range []string{"", "pb", "code", "json"} {
		for mode := 0; mode < 4; mode++ {
			pipelining, direct := mode&1 == 1, mode&2 == 2
			desc := map[string]interface{}{"header_encoder": enc, "server_pipelining": pipelining, "server_directIO": direct, "seed": e.Seed}
			svc := &ArgSvc{seen: map[int][][32]byte{}}
			srv := rpc.NewServer()
			srv.SetLogLevel(rpc.OffLogLevel)
			srv.SetPipelining(pipelining)
			srv.SetDirectIO(direct)
			srv.RegisterName("A", svc)
			cend, send := newPipeCap(1 << 12)
			done := make(chan struct{})
			go func() {
				srv.ServeCodec(rpc.NewServerCodec(&rpc.BYTESCodec{}, encoderOf(enc), send, direct, 0))
				close(done)
			}()
			conn := rpc.NewConnWithCodec(rpc.NewClientCodec(&rpc.BYTESCodec{}, encoderOf(enc), cend, 0))
			for _, n := range sizes {
				if mode != 0 && n > 1100 && !e.thorough() {
					continue
				}
				req := genBytes(e, n, n%3)
				if enc == "json" { // the json header carries the body as text: keep it printable
					for i := range req {
						req[i] = 'a' + req[i]%26
					}
				}
				want := sha256.Sum256(req)
				var res []byte
				errc := make(chan error, 1)
				go func() { errc <- conn.Call("A.Take", &req, &res) }()
				var err error
				select {
				case err = <-errc:
				case <-time.After(10 * time.Second):
					e.fail("C04-request-not-answered", fmt.Sprintf("a call with %d argument bytes under the %q header encoder was not answered within 10s", n, enc), desc)
					err = fmt.Errorf("timeout")
				}
				svc.mu.Lock()
				got := svc.seen[n]
				svc.seen[n] = nil
				svc.mu.Unlock()
				switch {
				case err != nil:
					e.fail("C04-wellformed-request-failed", fmt.Sprintf("a call with %d argument bytes under the %q header encoder failed: %v", n, enc, err), desc)
				case len(got) != 1:
					e.fail("C04-handler-runs", fmt.Sprintf("a call with %d argument bytes under the %q header encoder ran the handler %d times with arguments of that size (the handler saw other sizes: %v)", n, enc, len(got), sizesSeen(svc)), desc)
				case got[0] != want:
					e.fail("C04-arguments-differ", fmt.Sprintf("the handler received %d argument bytes that differ from the %d bytes the client sent (header encoder %q)", n, n, enc), desc)
				case !bytes.Equal(res, []byte{byte(n), byte(n >> 8)}):
					e.fail("C01-foreign-reply", fmt.Sprintf("reply %x for a call with %d argument bytes", res, n), desc)
				}
				e.count("args-sweep", fmt.Sprintf("as-%s-%d-%s", enc, mode, lenClass(n)))
			}
			conn.Close()
			cend.Close()
			select {
			case <-done:
			case <-time.After(10 * time.Second):
				e.fail("C04-teardown-hangs", "ServeCodec did not return within 10s after the client closed", desc)
			}
		}
	}
}

func sizesSeen(a *ArgSvc) []int {
	a.mu.Lock()
	defer a.mu.Unlock()
	var out []int
	for n, l := range a.seen {
		if len(l) > 0 {
			out = append(out, n)
		}
	}
	return out
}

// ---- handlers that finish at the same instant, and arguments while the handler runs ----

type BarrierSvc struct {
	mu      sync.Mutex
	n, want int
	gate    chan struct{}
	changed int32
	entered chan struct{}
	release chan struct{}
}

// Meet returns when `want` handlers have arrived (or after a while): all of them answer at once.
func (b *BarrierSvc) Meet(req *[]byte, res *[]byte) error {
	b.mu.Lock()
	b.n++
	if b.n == b.want {
		close(b.gate)
	}
	g := b.gate
	b.mu.Unlock()
	select {
	case <-g:
	case <-time.After(2 * time.Second):
	}
	*res = append([]byte{0x5A}, *req...)
	return nil
}

// Hold looks at its arguments when it starts and again when it is released.
func (b *BarrierSvc) Hold(req *[]byte, res *[]byte) error {
	d1 := sha256.Sum256(*req)
	close(b.entered)
	<-b.release
	d2 := sha256.Sum256(*req)
	if d2 != d1 {
		b.mu.Lock()
		b.changed++
		b.mu.Unlock()
	}
	*res = append([]byte(nil), d2[:]...)
	return nil
}

func serverConcurrentAnswers(e *Env) {
	rounds := 2
	if e.thorough() {
		rounds = 20
	}
	for _, enc := range []string{"", "pb", "code", "json"} {
		for round := 0; round < rounds; round++ {
			const n = 40
			direct := round%2 == 1
			desc := map[string]interface{}{"header_encoder": enc, "server_directIO": direct, "concurrent_handlers": n, "round": round, "seed": e.Seed}
			e.inflight(desc)
			svc := &BarrierSvc{want: n, gate: make(chan struct{})}
			srv := rpc.NewServer()
			srv.SetLogLevel(rpc.OffLogLevel)
			srv.SetDirectIO(direct)
			srv.RegisterName("B", svc)
			cend, send := newPipeCap(1 << 12)
			go srv.ServeCodec(rpc.NewServerCodec(&rpc.BYTESCodec{}, encoderOf(enc), send, direct, 0))
			conn := rpc.NewConnWithCodec(rpc.NewClientCodec(&rpc.BYTESCodec{}, encoderOf(enc), cend, 0))
			done := make(chan *rpc.Call, n)
			reqs := make([][]byte, n)
			ress := make([][]byte, n)
			calls := make([]*rpc.Call, n)
			for i := 0; i < n; i++ {
				reqs[i] = []byte{'q', byte('a' + i%26), byte('a' + i/26)}
				calls[i] = conn.Go("B.Meet", &reqs[i], &ress[i], done)
			}
			got := 0
			deadline := time.After(8 * time.Second)
		wait:
			for got < n {
				select {
				case <-done:
					got++
				case <-deadline:
					break wait
				}
			}
			if got != n {
				e.fail("C04-request-not-answered", fmt.Sprintf("%d of %d requests whose handlers all returned at the same instant were never answered (header encoder %q)", n-got, n, enc), desc)
			}
			for i := 0; i < n && got == n; i++ {
				if calls[i].Error != nil || !bytes.Equal(ress[i], append([]byte{0x5A}, reqs[i]...)) {
					e.fail("C04-response-for-other-request", fmt.Sprintf("request %d of %d concurrent ones ended with err=%v reply=%q, want the echo of %q (header encoder %q)", i, n, calls[i].Error, ress[i], reqs[i], enc), desc)
					break
				}
			}
			conn.Close()
			cend.Close()
			e.count("concurrent-answers", fmt.Sprintf("ca-%s-%v-%d", enc, direct, round%4))
		}
	}
	argsDuringHandler(e)
}

// argsDuringHandler: the arguments of a running handler stay what the client sent, also with NoCopy, while
// later requests arrive on its connection; and its reply, computed from them when it is released, is its own.
func argsDuringHandler(e *Env) {
	pid := e.Res.Property
	for mode := 0; mode < 8; mode++ {
		noCopy, pipelining, direct := mode&1 == 1, mode&2 == 2, mode&4 == 4
		desc := map[string]interface{}{"server_nocopy": noCopy, "server_pipelining": pipelining, "server_directIO": direct, "seed": e.Seed}
		e.inflight(desc)
		svc := &BarrierSvc{entered: make(chan struct{}), release: make(chan struct{})}
		asvc := &ArgSvc{seen: map[int][][32]byte{}}
		srv := rpc.NewServer()
		srv.SetLogLevel(rpc.OffLogLevel)
		srv.SetNoCopy(noCopy)
		srv.SetPipelining(pipelining)
		srv.SetDirectIO(direct)
		srv.RegisterName("B", svc)
		srv.RegisterName("A", asvc)
		// over the library's own framing (socket.Messages reads each frame into the pooled read buffer
		// it is given, which is what the arguments alias under NoCopy)
		c2s, s2c := newChunkPipe(func() int { return 1 << 20 }), newChunkPipe(func() int { return 1 << 20 })
		cend := &duplex{r: s2c, w: c2s}
		srvRW := &duplex{r: c2s, w: s2c}
		go srv.ServeCodec(rpc.NewServerCodec(&rpc.BYTESCodec{}, nil, socket.NewMessages(srvRW, false), direct, 0))
		conn := rpc.NewConnWithCodec(rpc.NewClientCodec(&rpc.BYTESCodec{}, nil, socket.NewMessages(cend, false), 0))
		held := genBytes(e, 3000, 0)
		var hres []byte
		hc := conn.Go("B.Hold", &held, &hres, make(chan *rpc.Call, 1))
		select {
		case <-svc.entered:
		case <-time.After(5 * time.Second):
			e.fail(pid+"-request-not-answered", "a handler never started", desc)
			continue
		}
		// further frames of several sizes arrive while the handler is still running
		others := make(chan *rpc.Call, 400)
		for i := 0; i < 300; i++ {
			req := genBytes(e, 100+(i*37)%5000, i%3)
			var res []byte
			conn.Go("A.Take", &req, &res, others)
		}
		time.Sleep(20 * time.Millisecond)
		close(svc.release)
		select {
		case <-hc.Done:
		case <-time.After(5 * time.Second):
		}
		svc.mu.Lock()
		ch := svc.changed
		svc.mu.Unlock()
		wantReply := sha256.Sum256(held)
		if hc.Error == nil && !bytes.Equal(hres, wantReply[:]) {
			e.fail(pid+"-wrong-reply", fmt.Sprintf("a call whose handler was still running while later requests arrived completed without error with a reply that was not computed from its own arguments (NoCopy=%v pipelining=%v directIO=%v)", noCopy, pipelining, direct), desc)
		}
		if ch != 0 {
			e.fail(pid+"-arguments-change-under-handler", fmt.Sprintf("the arguments of a running handler changed while later requests arrived on its connection (NoCopy=%v pipelining=%v directIO=%v)", noCopy, pipelining, direct), desc)
		}
		conn.Close()
		cend.Close()
		e.count("args-during-handler", fmt.Sprintf("adh-%d", mode))
	}
}

// Push is a stream handler that pushes a few messages for every message it reads.
func (b *BarrierSvc) Push(h *hStream) error {
	for {
		var m []byte
		if err := h.s.ReadMessage(nil, &m); err != nil {
			return nil
		}
		for k := 0; k < 3; k++ {
			out := append([]byte{byte(k)}, m...)
			h.s.WriteMessage(&out)
		}
	}
}

// callsAfterStreamPushes: the same server serves a stream whose handler pushes messages, and ordinary calls
// on the same and on another connection afterwards: every one of them is executed once and answered.
func callsAfterStreamPushes(e *Env) {
	pid := e.Res.Property
	for mode := 0; mode < 4; mode++ {
		pipelining, direct := mode&1 == 1, mode&2 == 2
		desc := map[string]interface{}{"scenario": "ordinary calls after a stream handler has pushed messages", "server_pipelining": pipelining, "server_directIO": direct, "seed": e.Seed}
		e.inflight(desc)
		asvc := &ArgSvc{seen: map[int][][32]byte{}}
		srv := rpc.NewServer()
		srv.SetLogLevel(rpc.OffLogLevel)
		srv.SetPipelining(pipelining)
		srv.SetDirectIO(direct)
		srv.RegisterName("B", &BarrierSvc{})
		srv.RegisterName("A", asvc)
		newConn := func() (*rpc.Conn, *pipeEnd) {
			cend, send := newPipeCap(1 << 12)
			go srv.ServeCodec(rpc.NewServerCodec(&rpc.BYTESCodec{}, nil, send, direct, 0))
			return rpc.NewConnWithCodec(rpc.NewClientCodec(&rpc.BYTESCodec{}, nil, cend, 0)), cend
		}
		conn, cend := newConn()
		st, err := conn.NewStream("B.Push")
		if err != nil {
			e.fail(pid+"-wellformed-request-failed", fmt.Sprintf("NewStream failed: %v", err), desc)
			continue
		}
		for round := 0; round < 3; round++ {
			m := []byte{'m', byte(round)}
			st.WriteMessage(&m)
			for k := 0; k < 3; k++ {
				if _, err, ok := readWithTimeout(st, 3*time.Second); !ok || err != nil {
					e.fail("C09-message-lost", fmt.Sprintf("a pushed stream message did not arrive (%v)", err), desc)
				}
			}
			conn2, cend2 := newConn()
			for i, c := range []*rpc.Conn{conn, conn2, conn, conn2, conn, conn2} {
				n := 20 + round*10 + i
				req := genBytes(e, n, i%3)
				var res []byte
				call := c.Go("A.Take", &req, &res, make(chan *rpc.Call, 1))
				select {
				case <-call.Done:
					asvc.mu.Lock()
					runs := len(asvc.seen[n])
					asvc.seen[n] = nil
					asvc.mu.Unlock()
					if call.Error != nil || runs != 1 {
						e.fail(pid+"-handler-runs", fmt.Sprintf("an ordinary call made after a stream handler of the same server had pushed messages ended with err=%v and ran its handler %d times", call.Error, runs), desc)
					}
				case <-time.After(3 * time.Second):
					asvc.mu.Lock()
					runs := len(asvc.seen[n])
					asvc.mu.Unlock()
					e.fail(pid+"-request-not-answered", fmt.Sprintf("an ordinary call made after a stream handler of the same server had pushed messages was never answered; its handler ran %d times", runs), desc)
				}
				e.count("calls-after-push", fmt.Sprintf("cap-%d-%d-%d", mode, round, i))
			}
			conn2.Close()
			cend2.Close()
		}
		st.Close()
		conn.Close()
		cend.Close()
	}
}
