package main

// C04, "invoked exactly once with arguments equal to what the client sent":
// a sweep over header encoders, server modes and argument sizes around every
// length-prefix boundary.  The handler records what it was given.

import (
	"bytes"
	"crypto/sha256"
	"fmt"
	"sync"
	"time"

	"github.com/hslam/rpc"
)

type ArgSvc struct {
	mu   sync.Mutex
	seen map[int][][32]byte // by size: digests of the arguments of each invocation
}

func (a *ArgSvc) Take(req *[]byte, res *[]byte) error {
	a.mu.Lock()
	a.seen[len(*req)] = append(a.seen[len(*req)], sha256.Sum256(*req))
	a.mu.Unlock()
	*res = []byte{byte(len(*req)), byte(len(*req) >> 8)}
	return nil
}

func serverArgsSweep(e *Env) {
	sizes := []int{0, 1, 2, 63, 64, 126, 127, 128, 129, 130, 191, 192, 254, 255, 256, 257, 383, 384, 385, 511, 512, 513, 640, 1023, 1024, 16382, 16383, 16384, 16385, 65535, 65536, 70000}
	if e.thorough() {
		for n := 0; n < 1100; n++ {
			sizes = append(sizes, n)
		}
	}
	for _, enc := range []string{"", "pb", "code", "json"} {
		for mode := 0; mode < 4; mode++ {
			pipelining, direct := mode&1 == 1, mode&2 == 2
			desc := map[string]interface{}{"header_encoder": enc, "server_pipelining": pipelining, "server_directIO": direct, "seed": e.Seed}
			svc := &ArgSvc{seen: map[int][][32]byte{}}
			srv := rpc.NewServer()
			srv.SetLogLevel(rpc.OffLogLevel)
			srv.SetPipelining(pipelining)
			srv.SetDirectIO(direct)
			srv.RegisterName("A", svc)
			cend, send := newPipeCap(1 << 12)
			done := make(chan struct{})
			go func() {
				srv.ServeCodec(rpc.NewServerCodec(&rpc.BYTESCodec{}, encoderOf(enc), send, direct, 0))
				close(done)
			}()
			conn := rpc.NewConnWithCodec(rpc.NewClientCodec(&rpc.BYTESCodec{}, encoderOf(enc), cend, 0))
			for _, n := range sizes {
				if mode != 0 && n > 1100 && !e.thorough() {
					continue
				}
				req := genBytes(e, n, n%3)
				if enc == "json" { // the json header carries the body as text: keep it printable
					for i := range req {
						req[i] = 'a' + req[i]%26
					}
				}
				want := sha256.Sum256(req)
				var res []byte
				errc := make(chan error, 1)
				go func() { errc <- conn.Call("A.Take", &req, &res) }()
				var err error
				select {
				case err = <-errc:
				case <-time.After(10 * time.Second):
					e.fail("C04-request-not-answered", fmt.Sprintf("a call with %d argument bytes under the %q header encoder was not answered within 10s", n, enc), desc)
					err = fmt.Errorf("timeout")
				}
				svc.mu.Lock()
				got := svc.seen[n]
				svc.seen[n] = nil
				svc.mu.Unlock()
				switch {
				case err != nil:
					e.fail("C04-wellformed-request-failed", fmt.Sprintf("a call with %d argument bytes under the %q header encoder failed: %v", n, enc, err), desc)
				case len(got) != 1:
					e.fail("C04-handler-runs", fmt.Sprintf("a call with %d argument bytes under the %q header encoder ran the handler %d times with arguments of that size (the handler saw other sizes: %v)", n, enc, len(got), sizesSeen(svc)), desc)
				case got[0] != want:
					e.fail("C04-arguments-differ", fmt.Sprintf("the handler received %d argument bytes that differ from the %d bytes the client sent (header encoder %q)", n, n, enc), desc)
				case !bytes.Equal(res, []byte{byte(n), byte(n >> 8)}):
					e.fail("C01-foreign-reply", fmt.Sprintf("reply %x for a call with %d argument bytes", res, n), desc)
				}
				e.count("args-sweep", fmt.Sprintf("as-%s-%d-%s", enc, mode, lenClass(n)))
			}
			conn.Close()
			cend.Close()
			select {
			case <-done:
			case <-time.After(10 * time.Second):
				e.fail("C04-teardown-hangs", "ServeCodec did not return within 10s after the client closed", desc)
			}
		}
	}
}

func sizesSeen(a *ArgSvc) []int {
	a.mu.Lock()
	defer a.mu.Unlock()
	var out []int
	for n, l := range a.seen {
		if len(l) > 0 {
			out = append(out, n)
		}
	}
	return out
}
