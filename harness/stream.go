package main

// Streams (C09, C10): real Conn and real Server over a chunking byte pipe;
// several streams per connection interleaved with unary calls and pings;
// handler-first / client-first writes; client Close and connection loss with
// readers blocked on both ends.  Oracles compare the per-stream message
// sequences on both ends; the frames each reader received are replayed
// through the Coq model's routing (Corr/RunStream.v).

import (
	"sync/atomic"
	"encoding/binary"
	"fmt"
	"os"
	"path/filepath"
	"strings"
	"sync"
	"time"

	"github.com/hslam/rpc"
	"github.com/hslam/socket"
)

func init() {
	commands["stream-c09"] = func(w string) { runStream(w, "C09") }
	commands["stream-c10"] = func(w string) { runStream(w, "C10") }
}

// message payload: 0xA5, stream tag, id (uint16), padding
func streamMsg(tag, id, size int) []byte {
	b := make([]byte, 4+size)
	b[0], b[1] = 0xA5, byte(tag)
	binary.BigEndian.PutUint16(b[2:], uint16(id))
	for i := 4; i < len(b); i++ {
		b[i] = byte(tag*31 + id + i)
	}
	return b
}

func parseStreamMsg(b []byte) (tag, id int, ok bool) {
	if len(b) < 4 || b[0] != 0xA5 {
		return 0, 0, false
	}
	tag, id = int(b[1]), int(binary.BigEndian.Uint16(b[2:]))
	for i := 4; i < len(b); i++ {
		if b[i] != byte(tag*31+id+i) {
			return tag, id, false
		}
	}
	return tag, id, true
}

// hStream is the handler's view of a stream.
type hStream struct {
	s rpc.Stream
}

// Connect implements rpc.SetStream.
func (h *hStream) Connect(s rpc.Stream) error { h.s = s; return nil }

type streamLog struct {
	mu       sync.Mutex
	srvRead  map[int][]int // by tag
	srvWrote map[int][]int
	exited   map[int]bool
	bad      []string
}

// ChatSvc: the handler pushes `first` messages at once, then echoes every message it reads with id+1000
// until its ReadMessage fails.
type ChatSvc struct {
	log   *streamLog
	first int
	bad   bool // the handler also writes one value the body codec cannot encode, between its pushes
	lag   bool // the handler starts reading late: messages queue up at the server
}

// copyingBytes is BYTESCodec with a decode that copies
type copyingBytes struct{ rpc.BYTESCodec }

func (c *copyingBytes) Unmarshal(data []byte, v interface{}) error {
	p, ok := v.(*[]byte)
	if !ok || p == nil {
		return rpc.ErrorBYTES
	}
	*p = append([]byte(nil), data...)
	return nil
}

// something BYTESCodec cannot marshal
type notBytes struct{ X int }

func (c *ChatSvc) Chat(h *hStream) error {
	// the tag is learnt from the first message read, or announced by pushes using tag 200+k of the push counter
	tag := -1
	c.log.mu.Lock()
	n := c.first
	c.log.mu.Unlock()
	pushTag := 0
	_ = pushTag
	for i := 0; i < n; i++ {
		// pushes before anything was read carry tag 255 (resolved by the client by stream identity)
		if err := h.s.WriteMessage(ptr(streamMsg(255, i+1, i%3))); err != nil {
			break
		}
		c.log.mu.Lock()
		c.log.srvWrote[-1] = append(c.log.srvWrote[-1], i+1)
		c.log.mu.Unlock()
	}
	if c.lag {
		time.Sleep(3 * time.Millisecond)
	}
	for {
		var m []byte
		if err := h.s.ReadMessage(nil, &m); err != nil {
			c.log.mu.Lock()
			if err != rpc.ErrStreamShutdown {
				c.log.bad = append(c.log.bad, fmt.Sprintf("handler ReadMessage returned %v", err))
			}
			c.log.exited[tag] = true
			c.log.mu.Unlock()
			// every later operation reports the shutdown too
			if err2 := h.s.WriteMessage(ptr(streamMsg(0, 0, 0))); err2 != rpc.ErrStreamShutdown {
				c.log.mu.Lock()
				c.log.bad = append(c.log.bad, fmt.Sprintf("handler WriteMessage after shutdown returned %v", err2))
				c.log.mu.Unlock()
			}
			return nil
		}
		t, id, ok := parseStreamMsg(m)
		c.log.mu.Lock()
		if !ok {
			c.log.bad = append(c.log.bad, fmt.Sprintf("handler read a corrupted message %x", m))
		}
		if tag == -1 {
			tag = t
		} else if t != tag {
			c.log.bad = append(c.log.bad, fmt.Sprintf("handler of stream %d read a message of stream %d", tag, t))
		}
		c.log.srvRead[t] = append(c.log.srvRead[t], id)
		c.log.mu.Unlock()
		if c.bad && id == 1 {
			// a value the body codec cannot encode: the reader on the other side is told (an error in
			// place of a message); what is written afterwards is not affected
			h.s.WriteMessage(&notBytes{1})
		}
		if id%2 == 0 { // echo the even ones
			if err := h.s.WriteMessage(ptr(streamMsg(t, id+1000, id%5))); err == nil {
				c.log.mu.Lock()
				c.log.srvWrote[t] = append(c.log.srvWrote[t], id+1000)
				c.log.mu.Unlock()
			}
		}
	}
}

// Plain is an ordinary method on the same connection.
func (c *ChatSvc) Plain(req *[]byte, res *[]byte) error {
	*res = append([]byte{0xEE}, *req...)
	return nil
}

func ptr(b []byte) *[]byte { return &b }

type streamRun struct {
	e      *Env
	conn   *rpc.Conn
	srv    *rpc.Server
	log    *streamLog
	cliRW  *duplex
	cliRec *recMsgs
	srvRec *recMsgs
	done   chan struct{}
	replay map[string]interface{}
}

func newStreamRun(e *Env, first int, chunkMode int, srvPipe, srvDirect, cliDirect bool) *streamRun {
	return newStreamRunBad(e, first, chunkMode, srvPipe, srvDirect, cliDirect, false)
}

func newStreamRunBad(e *Env, first int, chunkMode int, srvPipe, srvDirect, cliDirect, bad bool) *streamRun {
	r := &streamRun{e: e, log: &streamLog{srvRead: map[int][]int{}, srvWrote: map[int][]int{}, exited: map[int]bool{}}, done: make(chan struct{})}
	var rmu sync.Mutex
	sizes := func() int {
		rmu.Lock()
		defer rmu.Unlock()
		switch chunkMode {
		case 0:
			return 1 << 20
		case 1:
			return 1 + e.Rng.Intn(3)
		}
		return 1 + e.Rng.Intn(90)
	}
	c2s, s2c := newChunkPipe(sizes), newChunkPipe(sizes)
	r.cliRW = &duplex{r: s2c, w: c2s}
	srvRW := &duplex{r: c2s, w: s2c}
	r.srvRec = &recMsgs{Messages: socket.NewMessages(srvRW, false)}
	r.cliRec = &recMsgs{Messages: socket.NewMessages(r.cliRW, false)}
	r.srv = rpc.NewServer()
	r.srv.SetLogLevel(rpc.OffLogLevel)
	r.srv.SetPipelining(srvPipe)
	r.srv.SetDirectIO(srvDirect)
	noCopy := chunkMode == 0 && first == 0 && srvPipe // some runs: NoCopy server whose handler lags behind the client
	r.srv.SetNoCopy(noCopy)
	r.srv.RegisterName("Chat", &ChatSvc{log: r.log, first: first, bad: bad, lag: noCopy})
	go func() {
		var body rpc.Codec = &rpc.BYTESCodec{}
		if noCopy {
			// NoCopy is only for codecs that do not alias their input (the message buffer goes back to the
			// pool as soon as it has been decoded): a bytes codec that copies
			body = &copyingBytes{}
		}
		r.srv.ServeCodec(rpc.NewServerCodec(body, nil, r.srvRec, srvDirect, 0))
		close(r.done)
	}()
	r.conn = rpc.NewConnWithCodec(rpc.NewClientCodec(&rpc.BYTESCodec{}, nil, r.cliRec, 0))
	if cliDirect {
		r.conn.SetDirectIO(true)
	}
	r.replay = map[string]interface{}{"first_pushes": first, "chunk_mode": chunkMode, "server_pipelining": srvPipe, "server_directIO": srvDirect, "client_directIO": cliDirect, "unencodable_writes": bad, "server_nocopy_lagging_handler": noCopy, "seed": e.Seed}
	return r
}

type cliStream struct {
	tag     int
	s       rpc.Stream
	wrote   []int
	read    []int // ids of messages read
	readAll bool
	sawWriteError bool
}

func readWithTimeout(s rpc.Stream, d time.Duration) ([]byte, error, bool) {
	type res struct {
		b   []byte
		err error
	}
	ch := make(chan res, 1)
	go func() {
		var m []byte
		err := s.ReadMessage(nil, &m)
		ch <- res{m, err}
	}()
	select {
	case r := <-ch:
		return r.b, r.err, true
	case <-time.After(d):
		return nil, nil, false
	}
}

func runStreamOne(e *Env, i int, prop string) (cases []string) {
	first := []int{0, 1, 3, 0, 2}[i%5]
	bad := i%5 == 4 || i%7 == 1 // both ends also write one value the codec cannot encode
	r := newStreamRunBad(e, first, i%3, i%4 == 1, i%5 == 2, i%3 == 1, bad)
	nstreams := 1 + i%4
	var streams []*cliStream
	var mu sync.Mutex
	var wg sync.WaitGroup
	fail := func(sig, what string) { r.e.fail(sig, what, r.replay) }
	// open the streams (concurrently with unary traffic)
	stop := make(chan struct{})
	var uwg sync.WaitGroup
	uwg.Add(1)
	go func() {
		defer uwg.Done()
		for k := 0; ; k++ {
			select {
			case <-stop:
				return
			default:
			}
			req, res := []byte{byte(k), 7}, []byte(nil)
			err := r.conn.Call("Chat.Plain", &req, &res)
			if err == nil && string(res) != string(append([]byte{0xEE}, req...)) {
				fail("C09-stream-message-reached-unary-call", fmt.Sprintf("a unary call on a connection with streams got reply %x", res))
			}
			if k%3 == 0 {
				r.conn.Ping()
			}
			if err != nil {
				return
			}
		}
	}()
	for k := 0; k < nstreams; k++ {
		s, err := r.conn.NewStream("Chat.Chat")
		if err != nil {
			fail("C09-open-failed", fmt.Sprintf("NewStream failed: %v", err))
			continue
		}
		streams = append(streams, &cliStream{tag: k + 1, s: s})
	}
	closeEarly := prop == "C10" || i%4 == 3
	for _, cs := range streams {
		wg.Add(1)
		go func(cs *cliStream) {
			defer wg.Done()
			nmsg := 3 + (i+cs.tag)%6
			expectReads := first
			for id := 1; id <= nmsg; id++ {
				if err := cs.s.WriteMessage(ptr(streamMsg(cs.tag, id, []int{0, 1, 130, 70000}[(id+i)%4]))); err != nil {
					fail("C09-write-failed", fmt.Sprintf("Stream.WriteMessage failed on an open stream: %v", err))
				}
				cs.wrote = append(cs.wrote, id)
				if id%2 == 0 {
					expectReads++
				}
				if bad && id == 1 {
					// a message that cannot be encoded is not sent; the stream is otherwise unaffected
					cs.s.WriteMessage(&notBytes{2})
				}
			}
			// read everything the handler sends
			for len(cs.read) < expectReads {
				b, err, ok := readWithTimeout(cs.s, 10*time.Second)
				if !ok {
					fail("C09-message-lost", fmt.Sprintf("stream %d: client read %v, then waited 10s for message %d of %d (pushed first: %d)", cs.tag, cs.read, len(cs.read)+1, expectReads, first))
					return
				}
				if err != nil && bad && err.Error() == rpc.ErrorBYTES.Error() {
					// the handler's unencodable value is reported to this reader: the library attaches the
					// error to what it delivers from then on; the messages themselves must still all arrive
					cs.sawWriteError = true
					if len(b) == 0 {
						continue
					}
					err = nil
				}
				if err != nil {
					fail("C09-read-error", fmt.Sprintf("stream %d: ReadMessage failed: %v", cs.tag, err))
					return
				}
				t, id, okm := parseStreamMsg(b)
				if !okm && len(b) > 0 {
					fail("C09-corrupted", fmt.Sprintf("stream %d: client read a corrupted message %s", cs.tag, short(b)))
				}
				if len(b) == 0 {
					fail("C09-phantom-message", fmt.Sprintf("stream %d: client read an empty message nobody wrote", cs.tag))
					id = 0
				} else if t != cs.tag && t != 255 {
					fail("C09-cross-delivery", fmt.Sprintf("stream %d read a message of stream %d", cs.tag, t))
				}
				mu.Lock()
				cs.read = append(cs.read, id)
				mu.Unlock()
			}
			cs.readAll = true
		}(cs)
	}
	wg.Wait()
	// expected sequences
	for _, cs := range streams {
		var want []int
		for k := 1; k <= first; k++ {
			want = append(want, k)
		}
		// pushes come first, echoes of even ids follow in order; (pushes and echoes may interleave only
		// in that order because the handler pushes before it reads)
		for _, id := range cs.wrote {
			if id%2 == 0 {
				want = append(want, id+1000)
			}
		}
		if cs.readAll && fmt.Sprint(cs.read) != fmt.Sprint(want) {
			fail("C09-sequence", fmt.Sprintf("stream %d: client read %v, handler wrote %v", cs.tag, cs.read, want))
		}
		// the last message written need not have been echoed: give the handler time to read it
		var got []int
		for deadline := time.Now().Add(10 * time.Second); ; time.Sleep(200 * time.Microsecond) {
			r.log.mu.Lock()
			got = append([]int(nil), r.log.srvRead[cs.tag]...)
			r.log.mu.Unlock()
			if len(got) >= len(cs.wrote) || time.Now().After(deadline) {
				break
			}
		}
		if fmt.Sprint(got) != fmt.Sprint(cs.wrote) {
			fail("C09-sequence", fmt.Sprintf("stream %d: handler read %v, client wrote %v", cs.tag, got, cs.wrote))
		}
		e.count("stream", fmt.Sprintf("s-%d-%d-%d-%v-%d", first, i%3, nstreams, closeEarly, len(cs.wrote)))
	}
	// C10: a reader blocked on each end, then close / connection loss
	blocked := make(chan error, len(streams))
	for _, cs := range streams {
		go func(cs *cliStream) {
			var m []byte
			blocked <- cs.s.ReadMessage(nil, &m)
		}(cs)
	}
	time.Sleep(2 * time.Millisecond)
	if closeEarly && len(streams) > 0 {
		// close the first stream only: its reader and its handler return; siblings keep working
		cs := streams[0]
		if err := cs.s.Close(); err != nil {
			fail("C10-close-error", fmt.Sprintf("Stream.Close returned %v", err))
		}
		select {
		case err := <-blocked:
			if err != rpc.ErrStreamShutdown {
				fail("C10-blocked-read-error-kind", fmt.Sprintf("a ReadMessage blocked at Close returned %v", err))
			}
		case <-time.After(5 * time.Second):
			fail("C10-client-reader-stays-blocked", "a client ReadMessage blocked on a stream did not return after Stream.Close")
		}
		deadline := time.Now().Add(5 * time.Second)
		for {
			r.log.mu.Lock()
			ex := r.log.exited[cs.tag]
			r.log.mu.Unlock()
			if ex {
				break
			}
			if time.Now().After(deadline) {
				fail("C10-handler-stays-blocked", "the server-side handler of a stream closed by the client did not return")
				break
			}
			time.Sleep(time.Millisecond)
		}
		if err := cs.s.WriteMessage(ptr(streamMsg(cs.tag, 999, 0))); err != rpc.ErrStreamShutdown {
			fail("C10-write-after-close", fmt.Sprintf("WriteMessage on a closed stream returned %v", err))
		}
		if _, err, ok := readWithTimeout(cs.s, 3*time.Second); !ok {
			fail("C10-read-after-close", "a ReadMessage started on a closed stream blocks")
		} else if err != rpc.ErrStreamShutdown {
			fail("C10-read-after-close", fmt.Sprintf("ReadMessage on a closed stream returned %v", err))
		}
		// siblings still work
		for _, sib := range streams[1:] {
			if err := sib.s.WriteMessage(ptr(streamMsg(sib.tag, 500, 1))); err != nil {
				fail("C10-sibling-disturbed", fmt.Sprintf("closing one stream broke WriteMessage on a sibling: %v", err))
			}
			sib.wrote = append(sib.wrote, 500)
		}
		req, res := []byte{1, 2}, []byte(nil)
		if err := r.conn.Call("Chat.Plain", &req, &res); err != nil {
			fail("C10-sibling-disturbed", fmt.Sprintf("closing one stream broke a unary call: %v", err))
		}
		streams = streams[1:]
		// sibling echoes of 500 (even) will arrive; let the blocked sibling readers take them
		for range streams {
			select {
			case err := <-blocked:
				if err != nil && !(bad && err.Error() == rpc.ErrorBYTES.Error()) {
					fail("C10-sibling-disturbed", fmt.Sprintf("a sibling's blocked ReadMessage failed after another stream was closed: %v", err))
				}
			case <-time.After(5 * time.Second):
				fail("C09-message-lost", "a sibling stream did not receive the echo of its message after another stream was closed")
			}
		}
		// block them again for the connection-loss phase
		for _, cs := range streams {
			go func(cs *cliStream) {
				var m []byte
				blocked <- cs.s.ReadMessage(nil, &m)
			}(cs)
		}
		time.Sleep(2 * time.Millisecond)
	}
	close(stop)
	// connection loss
	r.conn.Close()
	r.cliRW.Close()
	uwg.Wait()
	for range streams {
		select {
		case err := <-blocked:
			if err != rpc.ErrStreamShutdown {
				fail("C10-blocked-read-error-kind", fmt.Sprintf("a ReadMessage blocked when the connection ended returned %v", err))
			}
		case <-time.After(5 * time.Second):
			fail("C10-client-reader-stays-blocked", "a client ReadMessage blocked on a stream did not return after the connection ended")
		}
	}
	select {
	case <-r.done:
	case <-time.After(5 * time.Second):
		fail("C20-servecodec-does-not-return", "ServeCodec did not return after the connection ended")
	}
	deadline := time.Now().Add(5 * time.Second)
	for _, cs := range streams {
		for {
			r.log.mu.Lock()
			ex := r.log.exited[cs.tag]
			r.log.mu.Unlock()
			if ex {
				break
			}
			if time.Now().After(deadline) {
				fail("C10-handler-stays-blocked", "a stream handler was still blocked after its connection had gone")
				break
			}
			time.Sleep(time.Millisecond)
		}
		if err := cs.s.WriteMessage(ptr(streamMsg(cs.tag, 998, 0))); err != rpc.ErrStreamShutdown {
			fail("C10-write-after-loss", fmt.Sprintf("WriteMessage after the connection ended returned %v", err))
		}
	}
	r.log.mu.Lock()
	for _, b := range r.log.bad {
		fail("C09-handler-observation", b)
	}
	r.log.mu.Unlock()
	// ---- model replay of the frames the two readers received ----
	cases = append(cases, streamCases(r, streams, first)...)
	return
}

// classify the recorded frames and emit RunStream cases
func streamCases(r *streamRun, kept []*cliStream, first int) []string {
	// server reader: requests
	r.srvRec.mu.Lock()
	sframes := append([][]byte(nil), r.srvRec.frames...)
	r.srvRec.mu.Unlock()
	streamSeq := map[uint64]bool{}
	tagOfSeq := map[uint64]int{}
	var c2s []string
	for _, f := range sframes {
		h, err := decodePBReq(f)
		if err != nil {
			continue
		}
		up := byte(0)
		if len(h.Upgrade) > 0 {
			up = h.Upgrade[0]
		}
		st := (up >> 3) & 3
		switch {
		case up&0x20 != 0:
			c2s = append(c2s, "QUnary 0")
		case st == 1:
			streamSeq[h.Seq] = true
			c2s = append(c2s, fmt.Sprintf("QOpen %d", h.Seq+1))
		case st == 2:
			t, id, _ := parseStreamMsg(h.Body)
			tagOfSeq[h.Seq] = t
			c2s = append(c2s, fmt.Sprintf("QMsg %d %d", h.Seq+1, id))
		case st == 3:
			c2s = append(c2s, fmt.Sprintf("QClose %d", h.Seq+1))
		default:
			c2s = append(c2s, "QUnary 1")
		}
	}
	seqOfTag := map[int]uint64{}
	for s, t := range tagOfSeq {
		seqOfTag[t] = s
	}
	var out []string
	if len(c2s) < 600 {
		var reads []string
		r.log.mu.Lock()
		for t, ids := range r.log.srvRead {
			if s, ok := seqOfTag[t]; ok {
				reads = append(reads, fmt.Sprintf("(%d, (%s, true))", s+1, natList0(ids)))
			}
		}
		r.log.mu.Unlock()
		out = append(out, fmt.Sprintf("C2S [%s] [%s]", strings.Join(c2s, "; "), strings.Join(reads, "; ")))
	}
	// client reader: responses
	r.cliRec.mu.Lock()
	cframes := append([][]byte(nil), r.cliRec.frames...)
	r.cliRec.mu.Unlock()
	var s2c []string
	acked := map[uint64]bool{}
	for _, f := range cframes {
		h, err := decodeResp(rpc.NewPBEncoder(), f)
		if err != nil {
			continue
		}
		if !streamSeq[h.Seq] {
			s2c = append(s2c, "PUnary 0")
			continue
		}
		if len(h.Errtxt) > 0 && acked[h.Seq] {
			// an error frame on an established stream (the handler wrote a value the body codec could not
			// encode): it carries no message
			s2c = append(s2c, fmt.Sprintf("PErr %d", h.Seq+1))
			continue
		}
		if len(h.Body) == 0 {
			if !acked[h.Seq] {
				acked[h.Seq] = true
				s2c = append(s2c, fmt.Sprintf("PAck %d", h.Seq+1))
			} else {
				s2c = append(s2c, fmt.Sprintf("PCloseAck %d", h.Seq+1))
			}
			continue
		}
		_, id, _ := parseStreamMsg(h.Body)
		s2c = append(s2c, fmt.Sprintf("PMsg %d %d", h.Seq+1, id))
	}
	if len(s2c) < 600 {
		var ss, reads []string
		for s := range streamSeq {
			ss = append(ss, fmt.Sprintf("%d", s+1))
		}
		for _, cs := range kept {
			if s, ok := seqOfTag[cs.tag]; ok {
				// the stream read everything it expected before the extra phases; later echoes may remain unread
				reads = append(reads, fmt.Sprintf("(%d, (%s, false))", s+1, natList0(cs.read)))
			}
		}
		out = append(out, fmt.Sprintf("S2C [%s] [%s] [%s]", strings.Join(ss, "; "), strings.Join(s2c, "; "), strings.Join(reads, "; ")))
	}
	return out
}

func runStream(work, prop string) {
	e := newEnv(prop, "stream", work)
	defer e.finish()
	var cases []string
	n := 60
	if e.thorough() {
		n = 800
	}
	for i := 0; i < n; i++ {
		cases = append(cases, runStreamOne(e, i, prop)...)
		if len(e.Res.Samples) < 3 {
			e.sample(map[string]interface{}{"run": i, "first_pushes": []int{0, 1, 3, 0, 2}[i%5], "streams": 1 + i%4})
		}
	}
	streamPoll(e)
	if prop == "C10" {
		streamStopRace(e)
		streamWriterAtCut(e)
		lifeOpenThenGone(e)
		connStreamCuts(e)
	}
	streamMultiReader(e)
	if prop == "C09" {
		streamEmptyAndBursts(e)
	}
	e.Res.Rule = "end-to-end stream runs over a chunking byte pipe: 1-4 streams per connection interleaved with unary calls and pings; the handler pushes 0-3 messages before reading (first server write races with stream establishment); numbered, tagged, self-checking messages of 4..70004 bytes; every stream's two directions compared message by message; then a reader blocked on each end and (a) client Close of one stream with siblings kept working, (b) connection loss; poll-mode server over a real unix socket; (C10) readers about to block racing with Close / connection loss, 12 streams a round; the frames both readers received are replayed through the model's routing; non-trivial = distinct (pushes, chunk mode, streams, close mode, message count)"
	names := writeCases(work, "From Coq Require Import List. Import ListNotations. From RPC Require Import RunStream. From RPC.Stream Require Import Model.", "scase", cases, 60)
	e.Res.ModelCases = len(cases)
	e.Res.Extra["case_files"] = names
}

// poll-mode server over a real unix socket: the handler must not stay blocked after the client has gone (F9)
func streamPoll(e *Env) {
	dir, _ := os.MkdirTemp(e.Work, "poll")
	defer os.RemoveAll(dir)
	addr := filepath.Join(dir, "p.sock")
	log := &streamLog{srvRead: map[int][]int{}, srvWrote: map[int][]int{}, exited: map[int]bool{}}
	srv := rpc.NewServer()
	srv.SetLogLevel(rpc.OffLogLevel)
	srv.SetPoll(true)
	srv.RegisterName("Chat", &ChatSvc{log: log, first: 1})
	rpc.RegisterCodec("bytes", func() rpc.Codec { return &rpc.BYTESCodec{} })
	go srv.Listen("unix", addr, "bytes")
	var conn *rpc.Conn
	var err error
	for try := 0; try < 200; try++ {
		conn, err = rpc.Dial("unix", addr, "bytes")
		if err == nil {
			break
		}
		time.Sleep(5 * time.Millisecond)
	}
	if err != nil {
		e.Res.Extra["poll"] = "skipped: " + err.Error()
		return
	}
	s, err := conn.NewStream("Chat.Chat")
	if err != nil {
		e.fail("C09-open-failed", fmt.Sprintf("poll server: NewStream failed: %v", err), nil)
		return
	}
	b, rerr, ok := readWithTimeout(s, 5*time.Second)
	if !ok || rerr != nil {
		e.fail("C09-message-lost", fmt.Sprintf("poll server: the handler's first pushed message did not arrive (%v)", rerr), nil)
	} else if _, id, okm := parseStreamMsg(b); !okm || id != 1 {
		e.fail("C09-sequence", fmt.Sprintf("poll server: first pushed message arrived as %x", b), nil)
	}
	s.WriteMessage(ptr(streamMsg(9, 1, 3)))
	time.Sleep(20 * time.Millisecond)
	conn.Close()
	deadline := time.Now().Add(5 * time.Second)
	for {
		log.mu.Lock()
		ex := log.exited[9]
		log.mu.Unlock()
		if ex {
			break
		}
		if time.Now().After(deadline) {
			e.fail("C10-poll-handler-stays-blocked", "poll-mode server: the stream handler was still blocked 5s after its client disconnected", nil)
			break
		}
		time.Sleep(time.Millisecond)
	}
	srv.Close()
	e.count("poll-stream", "poll-stream")
}

// streamStopRace: a reader that is just about to block races with the end of its stream (Close by the
// client, or the loss of the connection).  Whatever the interleaving, the reader returns.
func streamStopRace(e *Env) {
	rounds := 1500
	if e.thorough() {
		rounds = 30000
	}
	const nstreams = 12
	for round := 0; round < rounds; round++ {
		r := newStreamRun(e, 0, 0, round%4 == 1, round%5 == 2, round%3 == 1)
		var ss []rpc.Stream
		for k := 0; k < nstreams; k++ {
			s, err := r.conn.NewStream("Chat.Chat")
			if err != nil {
				break
			}
			ss = append(ss, s)
		}
		done := make(chan int, len(ss))
		start := make(chan struct{})
		for k, s := range ss {
			d := time.Duration(e.Rng.Intn(40)) * time.Microsecond
			go func(k int, s rpc.Stream, d time.Duration) {
				<-start
				spin(d)
				var m []byte
				s.ReadMessage(nil, &m)
				done <- k
			}(k, s, d)
		}
		d := time.Duration(e.Rng.Intn(40)) * time.Microsecond
		close(start)
		spin(d)
		if round%2 == 0 {
			for _, s := range ss {
				go s.Close()
			}
		} else {
			r.conn.Close()
			r.cliRW.Close()
		}
		deadline := time.After(3 * time.Second)
		got := 0
		for got < len(ss) {
			select {
			case <-done:
				got++
			case <-deadline:
				e.fail("C10-client-reader-stays-blocked", fmt.Sprintf("%d of %d readers that were about to block when their stream ended (%s) never returned", len(ss)-got, len(ss), map[bool]string{true: "Stream.Close", false: "connection loss"}[round%2 == 0]),
					map[string]interface{}{"scenario": "reader about to block races with the end of its stream", "round": round, "streams": len(ss), "seed": e.Seed})
				got = len(ss)
				round = rounds
			}
		}
		if round%2 == 0 {
			r.conn.Close()
			r.cliRW.Close()
		}
		select {
		case <-r.done:
		case <-time.After(3 * time.Second):
			e.fail("C10-handler-stays-blocked", "ServeCodec did not return after the connection ended (a stream handler is still blocked)", map[string]interface{}{"scenario": "stop race", "round": round, "seed": e.Seed})
			round = rounds
		}
		e.count("stop-race", fmt.Sprintf("sr-%d", round%40))
	}
}

// streamMultiReader: several goroutines blocked in ReadMessage on the SAME stream when it is closed or its
// connection ends: every one of them returns ErrStreamShutdown.
func streamMultiReader(e *Env) {
	pid := e.Res.Property
	for k := 0; k < 12; k++ {
		r := newStreamRun(e, 0, 0, k%4 == 1, k%5 == 2, k%3 == 1)
		how := []string{"Stream.Close", "Conn.Close", "connection loss"}[k%3]
		desc := map[string]interface{}{"scenario": "several readers blocked on one stream", "readers": 3, "ended_by": how, "run": k, "seed": e.Seed}
		s, err := r.conn.NewStream("Chat.Chat")
		if err != nil {
			e.fail(pid+"-open-failed", fmt.Sprintf("NewStream failed: %v", err), desc)
			continue
		}
		const readers = 3
		out := make(chan error, readers)
		for i := 0; i < readers; i++ {
			go func() {
				var m []byte
				out <- s.ReadMessage(nil, &m)
			}()
		}
		quiesce()
		if k%2 == 0 {
			// two messages arrive back to back while the readers are blocked: two of them get one each
			s.WriteMessage(ptr(streamMsg(7, 2, 1)))
			s.WriteMessage(ptr(streamMsg(7, 4, 1)))
			for n := 0; n < 2; n++ {
				select {
				case err := <-out:
					if err != nil {
						e.fail(pid+"-blocked-read-error-kind", fmt.Sprintf("a blocked ReadMessage returned %v when a message arrived", err), desc)
					}
				case <-time.After(3 * time.Second):
					e.fail(pid+"-message-lost", fmt.Sprintf("two messages arrived back to back for %d goroutines blocked in ReadMessage on one stream; only %d of them were handed a message within 3s", readers, n), desc)
					n = 2
				}
			}
			for i := 0; i < 2; i++ { // block two again for the ending below
				go func() {
					var m []byte
					out <- s.ReadMessage(nil, &m)
				}()
			}
			quiesce()
		}
		switch k % 3 {
		case 0:
			s.Close()
		case 1:
			r.conn.Close()
		default:
			r.cliRW.Close()
		}
		deadline := time.After(3 * time.Second)
		got := 0
	wait:
		for got < readers {
			select {
			case err := <-out:
				got++
				if err != rpc.ErrStreamShutdown {
					e.fail(pid+"-blocked-read-error-kind", fmt.Sprintf("a ReadMessage blocked when its stream ended (%s) returned %v", how, err), desc)
				}
			case <-deadline:
				e.fail(pid+"-stream-reader-stays-blocked", fmt.Sprintf("%d of %d goroutines blocked in ReadMessage on one stream were still blocked 3s after %s", readers-got, readers, how), desc)
				break wait
			}
		}
		// a read started only now, after the end, returns at once as well
		if _, err, ok := readWithTimeout(s, 3*time.Second); !ok {
			e.fail(pid+"-stream-reader-stays-blocked", fmt.Sprintf("a ReadMessage started after its stream had ended (%s) blocks", how), desc)
		} else if err != rpc.ErrStreamShutdown {
			e.fail(pid+"-blocked-read-error-kind", fmt.Sprintf("a ReadMessage started after its stream had ended (%s) returned %v", how, err), desc)
		}
		r.conn.Close()
		r.cliRW.Close()
		e.count("multi-reader", fmt.Sprintf("mr-%d", k))
	}
}

// StallSvc: a stream handler that reads nothing until it is released (the peer "is not reading").
type StallSvc struct{ release chan struct{} }

func (s *StallSvc) Stall(h *hStream) error {
	<-s.release
	for {
		var m []byte
		if err := h.s.ReadMessage(nil, &m); err != nil {
			return nil
		}
	}
}

// streamWriterAtCut: a WriteMessage is in progress (the transport is full, the peer does not read) at the
// moment the connection ends: the writer, a reader blocked on the same stream, and later calls all return.
func streamWriterAtCut(e *Env) {
	pid := e.Res.Property
	for k := 0; k < 6; k++ {
		how := []string{"Conn.Close", "the peer closing the connection"}[k%2]
		desc := map[string]interface{}{"scenario": "a stream write is blocked in the transport when the connection ends", "ended_by": how, "run": k, "seed": e.Seed}
		e.inflight(desc)
		svc := &StallSvc{release: make(chan struct{})}
		srv := rpc.NewServer()
		srv.SetLogLevel(rpc.OffLogLevel)
		srv.RegisterName("St", svc)
		cend, send := newPipeCap(2) // two frames fit; the third write blocks
		done := make(chan struct{})
		go func() {
			srv.ServeCodec(rpc.NewServerCodec(&rpc.BYTESCodec{}, nil, send, false, 0))
			close(done)
		}()
		conn := rpc.NewConnWithCodec(rpc.NewClientCodec(&rpc.BYTESCodec{}, nil, cend, 0))
		if k%3 == 2 {
			conn.SetPipelining(true)
		}
		s, err := conn.NewStream("St.Stall")
		if err != nil {
			e.fail(pid+"-open-failed", fmt.Sprintf("NewStream failed: %v", err), desc)
			continue
		}
		var writes int32
		wdone := make(chan error, 1)
		go func() {
			for {
				m := make([]byte, 2000)
				if err := s.WriteMessage(&m); err != nil {
					wdone <- err
					return
				}
				if atomic.AddInt32(&writes, 1) > 100000 {
					wdone <- nil
					return
				}
			}
		}()
		rdone := make(chan error, 1)
		go func() {
			var m []byte
			rdone <- s.ReadMessage(nil, &m)
		}()
		// wait until the writer is stuck in the transport
		last := int32(-1)
		for i := 0; i < 200; i++ {
			time.Sleep(time.Millisecond)
			n := atomic.LoadInt32(&writes)
			if n == last && n > 0 {
				break
			}
			last = n
		}
		if k%2 == 0 {
			go conn.Close()
		} else {
			send.Close()
		}
		deadline := time.After(3 * time.Second)
		released := 0
		for released < 2 {
			select {
			case <-wdone:
				released++
			case <-rdone:
				released++
			case <-deadline:
				e.fail(pid+"-stream-op-blocked-after-cut", fmt.Sprintf("a WriteMessage was in progress (transport full) when the connection ended (%s): 3s later only %d of the 2 goroutines using the stream (one writing, one reading) had returned", how, released), desc)
				released = 2
			}
		}
		cerr := make(chan error, 1)
		go func() { cerr <- conn.Ping() }()
		select {
		case <-cerr:
		case <-time.After(3 * time.Second):
			e.fail(pid+"-call-blocked-after-cut", "a call made after the connection had ended (with a stream write in progress at that moment) did not return within 3s", desc)
		}
		close(svc.release)
		cend.Close()
		send.Close()
		select {
		case <-done:
		case <-time.After(3 * time.Second):
		}
		e.count("writer-at-cut", fmt.Sprintf("wac-%d", k))
	}
}

// BurstSvc: numbered echo with a prefix, for messages of any length (the empty one included), and bursts.
type BurstSvc struct{}

// Num answers every message it reads with "<n>:" + the message, n counting what it has read.
func (b *BurstSvc) Num(h *hStream) error {
	for n := 0; ; n++ {
		var m []byte
		if err := h.s.ReadMessage(nil, &m); err != nil {
			return nil
		}
		out := append([]byte(fmt.Sprintf("%d:", n)), m...)
		h.s.WriteMessage(&out)
	}
}

// Flood reads a count and pushes that many numbered messages back to back, reading on meanwhile.
func (b *BurstSvc) Flood(h *hStream) error {
	var m []byte
	if err := h.s.ReadMessage(nil, &m); err != nil || len(m) < 4 {
		return nil
	}
	n := int(binary.BigEndian.Uint32(m))
	go func() {
		for {
			var x []byte
			if err := h.s.ReadMessage(nil, &x); err != nil {
				return
			}
		}
	}()
	for i := 0; i < n; i++ {
		out := make([]byte, 4)
		binary.BigEndian.PutUint32(out, uint32(i))
		if err := h.s.WriteMessage(&out); err != nil {
			return nil
		}
	}
	return nil
}

// streamEmptyAndBursts: messages of length zero are messages; long bursts in both directions at once
// arrive complete and in order.
func streamEmptyAndBursts(e *Env) {
	pid := e.Res.Property
	for k := 0; k < 4; k++ {
		pipelining, direct, cliDirect := k&1 == 1, k&2 == 2, k == 3
		desc := map[string]interface{}{"scenario": "empty stream messages; bursts both ways", "server_pipelining": pipelining, "server_directIO": direct, "client_directIO": cliDirect, "seed": e.Seed}
		e.inflight(desc)
		c2s, s2c := newChunkPipe(func() int { return 1 << 20 }), newChunkPipe(func() int { return 1 << 20 })
		cliRW := &duplex{r: s2c, w: c2s}
		srvRW := &duplex{r: c2s, w: s2c}
		srv := rpc.NewServer()
		srv.SetLogLevel(rpc.OffLogLevel)
		srv.SetPipelining(pipelining)
		srv.SetDirectIO(direct)
		srv.RegisterName("Bu", &BurstSvc{})
		go srv.ServeCodec(rpc.NewServerCodec(&rpc.BYTESCodec{}, nil, socket.NewMessages(srvRW, false), direct, 0))
		conn := rpc.NewConnWithCodec(rpc.NewClientCodec(&rpc.BYTESCodec{}, nil, socket.NewMessages(cliRW, false), 0))
		if cliDirect {
			conn.SetDirectIO(true)
		}
		// empty messages among others
		if st, err := conn.NewStream("Bu.Num"); err == nil {
			msgs := []string{"a", "", "bb", "", "", "ccc", ""}
			for _, m := range msgs {
				b := []byte(m)
				st.WriteMessage(&b)
			}
			for i, m := range msgs {
				b, err, ok := readWithTimeout(st, 3*time.Second)
				want := fmt.Sprintf("%d:%s", i, m)
				if !ok || err != nil || string(b) != want {
					e.fail(pid+"-message-lost", fmt.Sprintf("the client wrote %q (empty messages included); the handler's numbered echo %d came back as %q (err=%v, arrived=%v), want %q", msgs, i, b, err, ok, want), desc)
					break
				}
			}
			st.Close()
		}
		// bursts in both directions at once
		n := 20000
		if e.thorough() {
			n = 100000
		}
		if st, err := conn.NewStream("Bu.Flood"); err == nil {
			hdr := make([]byte, 4)
			binary.BigEndian.PutUint32(hdr, uint32(n))
			st.WriteMessage(&hdr)
			go func() {
				for i := 0; i < n/4; i++ {
					x := []byte{byte(i)}
					if st.WriteMessage(&x) != nil {
						return
					}
				}
			}()
			for i := 0; i < n; i++ {
				b, err, ok := readWithTimeout(st, 5*time.Second)
				if !ok || err != nil || len(b) != 4 || int(binary.BigEndian.Uint32(b)) != i {
					e.fail(pid+"-sequence", fmt.Sprintf("the handler pushed %d numbered messages back to back while the client was writing too: message %d arrived as %x (err=%v, arrived=%v)", n, i, b, err, ok), desc)
					break
				}
			}
			st.Close()
		}
		conn.Close()
		cliRW.Close()
		e.count("empty-and-bursts", fmt.Sprintf("eb-%d", k))
	}
}
