package main

// C18 under real concurrency: Close racing with callers that are on their way
// to becoming waiters.  No target is ever live, so every caller either waits
// or sees the closed client; after Close returns, each of them must come back
// with ErrShutdown at once, not at its dial timeout.

import (
	"context"
	"fmt"
	"sync"
	"time"

	"github.com/hslam/rpc"
)

// deadRT: every address is unreachable.
type deadRT struct{}

func (deadRT) RoundTrip(addr string, call *rpc.Call) *rpc.Call {
	call.Error = rpc.ErrDial
	if call.Done == nil {
		call.Done = make(chan *rpc.Call, 1)
	}
	call.Done <- call
	return call
}
func (deadRT) Go(addr, sm string, args, reply interface{}, done chan *rpc.Call) *rpc.Call {
	if done == nil {
		done = make(chan *rpc.Call, 1)
	}
	c := &rpc.Call{ServiceMethod: sm, Args: args, Reply: reply, Done: done, Error: rpc.ErrDial}
	done <- c
	return c
}
func (deadRT) Call(addr, sm string, args, reply interface{}) error { return rpc.ErrDial }
func (deadRT) CallWithContext(ctx context.Context, addr, sm string, args, reply interface{}) error {
	return rpc.ErrDial
}
func (deadRT) NewStream(addr, key string) (rpc.Stream, error) { return nil, rpc.ErrDial }
func (deadRT) Ping(addr string) error                         { return rpc.ErrDial }
func (deadRT) Close() error                                   { return nil }

func spin(d time.Duration) {
	for t0 := time.Now(); time.Since(t0) < d; {
	}
}

func lbCloseStress(e *Env) {
	rounds := 400
	if e.thorough() {
		rounds = 6000
	}
	const callers = 24
	const dialTimeout = 1500 * time.Millisecond
	reported := false
	for round := 0; round < rounds && !reported; round++ {
		c := rpc.NewClient(nil)
		c.Transport = deadRT{}
		c.DialTimeout = dialTimeout
		c.Update("a", "b")
		type res struct {
			err  error
			when time.Time
		}
		out := make([]res, callers)
		var wg sync.WaitGroup
		start := make(chan struct{})
		delays := make([]time.Duration, callers)
		for i := range delays {
			delays[i] = time.Duration(e.Rng.Intn(120)) * time.Microsecond
		}
		closeDelay := time.Duration(e.Rng.Intn(120)) * time.Microsecond
		for i := 0; i < callers; i++ {
			wg.Add(1)
			go func(i int) {
				defer wg.Done()
				<-start
				spin(delays[i])
				var a, b []byte
				err := c.Call("S.M", &a, &b)
				out[i] = res{err, time.Now()}
			}(i)
		}
		close(start)
		spin(closeDelay)
		c.Close()
		closed := time.Now()
		wg.Wait()
		for i := range out {
			late := out[i].when.Sub(closed)
			if out[i].err != rpc.ErrShutdown || late > dialTimeout/2 {
				reported = true
				e.fail("C18-close-strands-caller", fmt.Sprintf("a caller with no live target returned %v %v after Close had returned (dial timeout %v): Close did not release it", out[i].err, late.Round(time.Millisecond), dialTimeout),
					map[string]interface{}{"scenario": "Close racing with callers about to wait", "callers": callers, "round": round, "seed": e.Seed})
				break
			}
		}
		e.count("close-race", fmt.Sprintf("cr-%d", round%50))
	}
}

// Fallback: callers that arrive during a pause wait although targets are live; when the pause ends the
// detector's next tick must release them, and they are routed.  One model step sequence from the snapshot
// taken during the pause (waiters registered) to the snapshot after everybody has returned.
func lbFallbackScenario(e *Env) []string {
	var cases []string
	rounds := 3
	if e.thorough() {
		rounds = 30
	}
	scheds := []rpc.Scheduling{rpc.RoundRobinScheduling, rpc.LeastTimeScheduling, rpc.RandomScheduling}
	for round := 0; round < rounds; round++ {
		r := newLBRunN(e, scheds[round%3], 2+round%3)
		all := append([]string(nil), r.addrs...)
		for _, a := range all {
			r.rt.health[a] = true
		}
		r.update(all)
		for guard := 0; guard < 100 && r.anyDead(); guard++ {
			deadline := time.Now().Add(400 * time.Millisecond)
			for len(r.rt.pingGate.list()) == 0 && time.Now().Before(deadline) {
				time.Sleep(2 * time.Millisecond)
			}
			r.settle()
			if ps := r.rt.pingGate.list(); len(ps) > 0 {
				r.checkRet(ps[0])
			}
		}
		before, _ := r.snap()
		pause := 250 * time.Millisecond
		t0 := time.Now()
		r.c.Fallback(pause)
		r.emit(before, []string{"LFallbackOn"}, nil, false, nil, "Fallback on")
		ncall := 1 + e.Rng.Intn(3)
		if r.sched == rpc.LeastTimeScheduling {
			ncall = 1 // several woken callers update latencies and pick concurrently: their picks are not one replayable sequence
		}
		for k := 0; k < ncall; k++ {
			r.route()
		}
		if len(r.waiting) != ncall || time.Since(t0) > pause-20*time.Millisecond {
			// too slow to have registered everybody inside the pause: nothing to judge in this round
			r.close()
			r.drainGates()
			continue
		}
		before, sb := r.snap()
		nlog := len(r.rt.log)
		deadline := time.Now().Add(pause + 3*time.Second)
		done := 0
		for _, w := range r.waiting {
			select {
			case <-w.done:
				done++
			case <-time.After(time.Until(deadline)):
			}
		}
		r.waiting = nil
		if done != ncall {
			e.fail("C18-waiter-stranded-after-fallback", fmt.Sprintf("%d of %d callers that arrived during a Fallback pause of %v were still waiting 3s after it ended, although %d targets are live", ncall-done, ncall, pause, len(sb.List)), r.replay())
			r.close()
			r.drainGates()
			continue
		}
		quiesce()
		// C17: the estimate is a moving average of CALL durations: the time a caller spent waiting for
		// the pause to end is not part of it (the fake transport answers in microseconds)
		if _, sa := r.snap(); len(sb.List) > 1 {
			for _, t := range sa.Targets {
				if t.Latency > int64(pause/4) && t.Latency < int64(30*time.Second) {
					e.fail("C17-latency-includes-waiting", fmt.Sprintf("after callers that had waited %v for a Fallback pause were routed, the latency estimate of %s is %v although its calls took microseconds", pause, t.Address, time.Duration(t.Latency)), r.replay())
				}
			}
		}
		ops := []string{"LFallbackOff", "LDetect"}
		var saw []string
		for i := 0; i < ncall; i++ {
			if i == 0 && r.sched == rpc.LeastTimeScheduling && sb.ProbeAge > r.c.Tick {
				ops = append(ops, "LRescheduledProbe 0%nat")
			} else {
				ops = append(ops, "LRescheduled 0%nat")
			}
		}
		log := r.logSince(nlog)
		for _, a := range log {
			saw = append(saw, fmt.Sprintf("SawAddr %d%%nat", r.idx(a)))
			r.checkRouted(a)
			if len(sb.List) > 1 {
				ops = append(ops, fmt.Sprintf("LCallDone %d false", r.idx(a)))
			}
		}
		if r.sched == rpc.RandomScheduling {
			r.emitLoose(before, ops, fmt.Sprintf("Fallback ends (woke %d)", ncall))
		} else {
			r.emit(before, ops, saw, true, log, fmt.Sprintf("Fallback ends (woke %d)", ncall))
		}
		r.close()
		r.drainGates()
		cases = append(cases, r.cases...)
		e.count("fallback", fmt.Sprintf("fb-%s-%d-%d", schedCoq[r.sched], len(all), ncall))
	}
	return cases
}

// A wake-up racing with DialTimeout, then a caller that must wait.  Callers wait for a live target;
// the probe that finds the target live completes at about the moment their DialTimeout expires, so
// some of them are woken after their timer has fired.  Each of them returns nil (routed) or
// ErrTimeout — either is right.  What must not happen is that the raced wake-up leaks into a LATER
// wait: afterwards the target list is reset, nothing is live, and every new caller must wait its full
// DialTimeout and report ErrTimeout — not come back at once because a recycled waiter or channel
// still holds the old wake-up.
type raceRT struct {
	mu    sync.Mutex
	up    bool
	gate  chan struct{}
	pings int
}

func (f *raceRT) state() (bool, chan struct{}) {
	f.mu.Lock()
	defer f.mu.Unlock()
	return f.up, f.gate
}
func (f *raceRT) res() error {
	if up, _ := f.state(); up {
		return nil
	}
	return rpc.ErrDial
}
func (f *raceRT) RoundTrip(addr string, call *rpc.Call) *rpc.Call {
	call.Error = f.res()
	if call.Done == nil {
		call.Done = make(chan *rpc.Call, 1)
	}
	call.Done <- call
	return call
}
func (f *raceRT) Go(addr, sm string, args, reply interface{}, done chan *rpc.Call) *rpc.Call {
	if done == nil {
		done = make(chan *rpc.Call, 1)
	}
	c := &rpc.Call{ServiceMethod: sm, Args: args, Reply: reply, Done: done, Error: f.res()}
	done <- c
	return c
}
func (f *raceRT) Call(addr, sm string, args, reply interface{}) error { return f.res() }
func (f *raceRT) CallWithContext(ctx context.Context, addr, sm string, args, reply interface{}) error {
	return f.res()
}
func (f *raceRT) NewStream(addr, key string) (rpc.Stream, error) { return nil, f.res() }
func (f *raceRT) Ping(addr string) error {
	f.mu.Lock()
	g := f.gate
	f.pings++
	f.mu.Unlock()
	if g != nil {
		select {
		case <-g:
		case <-time.After(5 * time.Second):
		}
	}
	return f.res()
}
func (f *raceRT) Close() error { return nil }

func lbWakeTimeoutRace(e *Env) {
	clients, rounds := 8, 6
	if e.thorough() {
		clients, rounds = 12, 40
	}
	const callers = 32
	const dialTimeout = 160 * time.Millisecond // longer than the detector's tick, so that a probe is blocked at the gate when the timers fire
	var reported sync.Once
	var wg sync.WaitGroup
	offsets := make([][]time.Duration, clients)
	for i := range offsets {
		offsets[i] = make([]time.Duration, rounds)
		for j := range offsets[i] {
			offsets[i][j] = time.Duration(e.Rng.Intn(900)-200) * time.Microsecond
		}
	}
	var raced, woken, timedOut int64
	var cmu sync.Mutex
	for ci := 0; ci < clients; ci++ {
		wg.Add(1)
		go func(ci int) {
			defer wg.Done()
			f := &raceRT{}
			c := rpc.NewClient(nil)
			c.Transport = f
			c.DialTimeout = dialTimeout
			defer c.Close()
			for round := 0; round < rounds; round++ {
				// ---- phase 1: the target comes up as the waiting callers' timers fire ----
				gate := make(chan struct{})
				f.mu.Lock()
				f.up, f.gate = false, gate
				f.mu.Unlock()
				c.Update("t1")
				errs := make(chan error, callers)
				start := make(chan struct{})
				for i := 0; i < callers; i++ {
					go func() { <-start; var a, b []byte; errs <- c.Call("S.M", &a, &b) }()
				}
				t0 := time.Now()
				close(start)
				for time.Since(t0) < dialTimeout+offsets[ci][round] {
					if dialTimeout+offsets[ci][round]-time.Since(t0) > 2*time.Millisecond {
						time.Sleep(time.Millisecond)
					}
				}
				f.mu.Lock()
				f.up, f.gate = true, nil
				f.mu.Unlock()
				close(gate)
				nOK, nTO := 0, 0
				for i := 0; i < callers; i++ {
					select {
					case err := <-errs:
						switch err {
						case nil:
							nOK++
						case rpc.ErrTimeout:
							nTO++
						default:
							reported.Do(func() {
								e.fail("C18-wake-timeout-race-error-kind", fmt.Sprintf("a caller that waited for a live target while the target came up at its DialTimeout returned %v, want nil or ErrTimeout", err),
									map[string]interface{}{"scenario": "wake-up racing with DialTimeout", "round": round, "seed": e.Seed})
							})
						}
					case <-time.After(5 * time.Second):
						reported.Do(func() {
							e.fail("C18-wake-timeout-race-stranded", "a caller was still waiting 5s after both its DialTimeout and the target coming up", map[string]interface{}{"scenario": "wake-up racing with DialTimeout", "round": round, "seed": e.Seed})
						})
					}
				}
				cmu.Lock()
				woken += int64(nOK)
				timedOut += int64(nTO)
				if nOK > 0 && nTO > 0 {
					raced++
				}
				cmu.Unlock()
				// ---- phase 2: nothing is live; every caller must wait DialTimeout and report ErrTimeout ----
				f.mu.Lock()
				f.up, f.gate = false, nil
				f.mu.Unlock()
				c.Update("t1")
				type res struct {
					err error
					el  time.Duration
				}
				out := make(chan res, callers)
				start2 := make(chan struct{})
				for i := 0; i < callers; i++ {
					go func() {
						<-start2
						t := time.Now()
						var a, b []byte
						err := c.Call("S.M", &a, &b)
						out <- res{err, time.Since(t)}
					}()
				}
				close(start2)
				for i := 0; i < callers; i++ {
					select {
					case r := <-out:
						if r.err != rpc.ErrTimeout || r.el < dialTimeout*3/4 {
							reported.Do(func() {
								e.fail("C18-stale-wakeup", fmt.Sprintf("with no live target a caller returned %v after %v (DialTimeout %v, want ErrTimeout at the timeout): a wake-up that raced with an earlier caller's timeout was delivered to it", r.err, r.el.Round(time.Microsecond), dialTimeout),
									map[string]interface{}{"scenario": "wake-up racing with DialTimeout, then callers with no live target", "round": round, "seed": e.Seed})
							})
						}
					case <-time.After(5 * time.Second):
						reported.Do(func() {
							e.fail("C18-waits-longer-than-dialtimeout", "a caller with no live target was still waiting 5s after its DialTimeout", map[string]interface{}{"scenario": "wake-up racing with DialTimeout, then callers with no live target", "round": round, "seed": e.Seed})
						})
					}
				}
				e.count("wake-timeout-race", fmt.Sprintf("wtr-%d-%d", ci, round))
			}
		}(ci)
	}
	wg.Wait()
	e.mu.Lock()
	e.Res.Extra["wake_timeout_race"] = map[string]int64{"rounds": int64(clients * rounds), "rounds_with_both_outcomes": raced, "callers_woken": woken, "callers_timed_out": timedOut}
	e.mu.Unlock()
}
