package main

import (
	"encoding/hex"
	"encoding/json"
	"fmt"
	"math/rand"
	"os"
	"path/filepath"
	"sort"
	"strconv"
	"strings"
	"sync"
	"time"
)

// Result is what every harness subcommand leaves in <workdir>/result.json
// for the check driver.
type Result struct {
	Property     string                 `json:"property"`
	Engine       string                 `json:"engine"`
	Seed         int64                  `json:"seed"`
	Tier         string                 `json:"tier"`
	Evaluations  int                    `json:"evaluations"`
	Nontrivial   int                    `json:"distinct_nontrivial"`
	Rule         string                 `json:"rule"`
	Samples      []interface{}          `json:"samples"`
	Distribution map[string]int         `json:"distribution"`
	ModelCases   int                    `json:"model_cases"`
	Failures     []Failure              `json:"failures"`
	Extra        map[string]interface{} `json:"extra,omitempty"`
	WallS        float64                `json:"wall_s"`
}

// Failure is one oracle failure observed on the implementation.
type Failure struct {
	Signature string      `json:"signature"` // stable shape id, matched against known_findings.json
	What      string      `json:"what"`
	Replay    interface{} `json:"replay"`
}

type Env struct {
	mu    sync.Mutex
	Work  string
	Seed  int64
	Tier  string
	Rng   *rand.Rand
	Res   *Result
	start time.Time
	seen  map[string]bool
}

func newEnv(prop, engine, work string) *Env {
	seed := int64(1)
	if s := os.Getenv("VERIF_SEED"); s != "" {
		if v, err := strconv.ParseInt(s, 10, 64); err == nil {
			seed = v
		}
	}
	tier := os.Getenv("VERIF_TIER")
	if tier == "" {
		tier = "quick"
	}
	os.MkdirAll(work, 0755)
	return &Env{Work: work, Seed: seed, Tier: tier, Rng: rand.New(&lockedSource{src: rand.NewSource(seed).(rand.Source64)}),
		Res:   &Result{Property: prop, Engine: engine, Seed: seed, Tier: tier, Distribution: map[string]int{}, Failures: []Failure{}, Samples: []interface{}{}, Extra: map[string]interface{}{}},
		start: time.Now(), seen: map[string]bool{}}
}

// lockedSource makes the run's generator usable from the goroutines of a harness (handlers, pipe ends)
// as well as from its main line.
type lockedSource struct {
	mu  sync.Mutex
	src rand.Source64
}

func (l *lockedSource) Int63() int64 {
	l.mu.Lock()
	defer l.mu.Unlock()
	return l.src.Int63()
}
func (l *lockedSource) Uint64() uint64 {
	l.mu.Lock()
	defer l.mu.Unlock()
	return l.src.Uint64()
}
func (l *lockedSource) Seed(s int64) {
	l.mu.Lock()
	defer l.mu.Unlock()
	l.src.Seed(s)
}

func (e *Env) thorough() bool { return e.Tier == "thorough" }

// count records one evaluation of the given kind; key identifies distinct
// non-trivial cases (empty key = trivial).
func (e *Env) count(kind string, key string) {
	e.mu.Lock()
	defer e.mu.Unlock()
	e.Res.Evaluations++
	e.Res.Distribution[kind]++
	if key != "" && !e.seen[key] {
		e.seen[key] = true
		e.Res.Nontrivial++
	}
}

func (e *Env) sample(v interface{}) {
	e.mu.Lock()
	defer e.mu.Unlock()
	if len(e.Res.Samples) < 12 {
		e.Res.Samples = append(e.Res.Samples, v)
	}
}

func (e *Env) fail(sig, what string, replay interface{}) {
	e.mu.Lock()
	defer e.mu.Unlock()
	if len(e.Res.Failures) < 50 {
		e.Res.Failures = append(e.Res.Failures, Failure{sig, what, replay})
	}
}

// inflight notes what the harness is about to run; if the process dies in the middle (a panic in a
// library goroutine takes the whole process down) the driver reports this as the failing input.
func (e *Env) inflight(desc interface{}) {
	b, _ := json.Marshal(desc)
	os.WriteFile(filepath.Join(e.Work, "in_flight.json"), b, 0644)
}

func (e *Env) finish() {
	if r := recover(); r != nil {
		e.writeResult()
		panic(r)
	}
	os.Remove(filepath.Join(e.Work, "in_flight.json"))
	e.writeResult()
}

func (e *Env) writeResult() {
	e.Res.WallS = time.Since(e.start).Seconds()
	b, _ := json.MarshalIndent(e.Res, "", " ")
	if err := os.WriteFile(filepath.Join(e.Work, "result.json"), b, 0644); err != nil {
		fmt.Fprintln(os.Stderr, err)
		os.Exit(3)
	}
}

// ---- Coq emission ----

type CoqFile struct {
	b     strings.Builder
	n     int
	shard int
}

// bspec renders a byte string as a Coq [bspec]: hex segments and runs.
func bspec(b []byte) string {
	if len(b) == 0 {
		return "[]"
	}
	var segs []string
	i := 0
	lit := 0
	flush := func(j int) {
		if j-lit > 12 {
			seg := b[lit:j]
			var ws []string
			for k := 0; k < len(seg); k += 7 {
				var w uint64
				for m := 0; m < 7 && k+m < len(seg); m++ {
					w |= uint64(seg[k+m]) << (8 * uint(m))
				}
				ws = append(ws, strconv.FormatUint(w, 10))
			}
			segs = append(segs, fmt.Sprintf("Pk %d [%s]%%uint63", len(seg), strings.Join(ws, ";")))
		} else if j > lit {
			segs = append(segs, "Hx \""+hex.EncodeToString(b[lit:j])+"\"")
		}
	}
	for i < len(b) {
		j := i
		for j < len(b) && b[j] == b[i] {
			j++
		}
		if j-i >= 48 {
			flush(i)
			segs = append(segs, fmt.Sprintf("Rp %d %d", j-i, b[i]))
			lit = j
		}
		i = j
	}
	flush(len(b))
	return "[" + strings.Join(segs, "; ") + "]"
}

func coqBool(b bool) string {
	if b {
		return "true"
	}
	return "false"
}

func sortedKeys(m map[string]int) []string {
	var ks []string
	for k := range m {
		ks = append(ks, k)
	}
	sort.Strings(ks)
	return ks
}

// writeCases writes cases_<k>.v shards of at most per cases each and
// returns the file names.
func writeCases(work, imports, typ string, cases []string, per int) []string {
	var names []string
	for k := 0; k*per < len(cases) || k == 0; k++ {
		lo, hi := k*per, (k+1)*per
		if hi > len(cases) {
			hi = len(cases)
		}
		var b strings.Builder
		b.WriteString(strings.Replace(imports, "\n", " ", -1) + "\n")
		b.WriteString("Definition cases : list " + typ + " := [\n")
		b.WriteString(strings.Join(cases[lo:hi], ";\n"))
		b.WriteString("\n].\n")
		b.WriteString("Definition M := Eval vm_compute in mismatches cases.\nPrint M.\n")
		name := fmt.Sprintf("cases_%d.v", k)
		os.WriteFile(filepath.Join(work, name), []byte(b.String()), 0644)
		names = append(names, name)
		if hi >= len(cases) {
			break
		}
	}
	return names
}

func os_getenv(k string) string { return os.Getenv(k) }

// newLocalRng returns a goroutine-local PRNG derived from the run's seed.
func newLocalRng(seed int64) *rand.Rand { return rand.New(rand.NewSource(seed)) }
